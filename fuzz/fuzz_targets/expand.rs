#![no_main]
//! libFuzzer target for C17: the bytes are a choice stream (little-endian u16s) for the same
//! structure-aware generator + token mutator the proptest tier uses; the oracle is in the target:
//! the in-process expansion must return Ok or a renderable Err. Panics at sites that are known to be
//! artefacts of proc_macro2's fallback printer are tolerated so that the campaign keeps going.
use libfuzzer_sys::fuzz_target;
use vcore::engine::Expansion;

const FALLBACK_ONLY: [&str; 2] = ["trait_handlers/partial_eq/panic.rs", "trait_handlers/hash/panic.rs"];

fuzz_target!(|data: &[u8]| {
    let dna: Vec<u16> = data.chunks(2).map(|c| u16::from_le_bytes([c[0], *c.get(1).unwrap_or(&0)])).collect();
    let r = vcore::props::c17::eval(&dna);
    if let Expansion::Panic(m) = &r.result {
        if !FALLBACK_ONLY.iter().any(|s| m.contains(s)) {
            eprintln!("EDUCE-PANIC {m}\n{}", r.src);
            std::process::abort();
        }
    }
});
