#!/bin/bash
# Offline build of the verification harness (and of the shipping proc macro it drives).
set -e
export CARGO_NET_OFFLINE=true
cd /verif/harness
cargo build --offline 2>&1 | tail -3
# the shipping proc macro is built with the guard OFF: not from inside harness/, whose .cargo/config.toml turns it on
(cd /verif && cargo build --offline --manifest-path /repo/Cargo.toml --target-dir /verif/target/pm 2>&1 | tail -2)
test -x /verif/target/harness/debug/vcheck
# C18 uses one cargo target directory per worker; build one of each kind and clone it so that the
# first quick run does not compile the dependencies sixteen times over
if [ ! -d /verif/target/feat-b-0 ]; then
  (cd /verif && cargo check --offline --manifest-path /repo/Cargo.toml --no-default-features --features Debug --target-dir /verif/target/feat-b-0 2>&1 | tail -1)
  for k in $(seq 1 15); do cp -a /verif/target/feat-b-0 /verif/target/feat-b-$k; done
fi
if [ ! -d /verif/target/feat-d-0 ]; then
  cargo build --offline --quiet -p featdrv --no-default-features --features Debug --target-dir /verif/target/feat-d-0 2>&1 | tail -1
  for k in $(seq 1 15); do cp -a /verif/target/feat-d-0 /verif/target/feat-d-$k; done
fi
# C16 compares this dev-profile build with a release-profile build of the same sources
if [ ! -d /verif/target/feat-rel ]; then
  cargo build --offline --quiet --release -p featdrv --no-default-features --features Debug,Clone,Copy,PartialEq,Eq,PartialOrd,Ord,Hash,Default,Deref,DerefMut,Into --target-dir /verif/target/feat-rel 2>&1 | tail -1
fi
# ... and with a build in which syn's `full` feature is on (as it is whenever anything else in the user's build graph asks for it)
if [ ! -d /verif/target/feat-full ]; then
  cargo build --offline --quiet -p featdrv --no-default-features --features Debug,Clone,Copy,PartialEq,Eq,PartialOrd,Ord,Hash,Default,Deref,DerefMut,Into,full --target-dir /verif/target/feat-full 2>&1 | tail -1
fi
echo "setup done"
