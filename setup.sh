#!/bin/bash
# Offline build of the verification harness (and of the shipping proc macro it drives).
set -e
export CARGO_NET_OFFLINE=true
cd /verif/harness
cargo build --offline 2>&1 | tail -3
cargo build --offline --manifest-path /repo/Cargo.toml --target-dir /verif/target/pm 2>&1 | tail -2
test -x /verif/target/harness/debug/vcheck
