fn main() {}
