#!/bin/bash
# run_all_thorough.sh [ids..] : thorough tier of the given checks (default all), one summary line each
export VERIF_SEED=${VERIF_SEED:-0}
mkdir -p /verif/work/logs
ids=${@:-01 02 03 04 05 06 07 08 09 10 11 12 13 14 15 16 17 18 19 20}
for i in $ids; do
  s=$(date +%s); ./check C$i --tier thorough > /verif/work/logs/t_C$i.log 2>&1; rc=$?; e=$(date +%s)
  echo "C$i thorough seed=$VERIF_SEED rc=$rc $((e-s))s known=$(grep -c KNOWN-FINDING /verif/work/logs/t_C$i.log) $(grep -E 'VIOLATION|INCONCLUSIVE' /verif/work/logs/t_C$i.log | head -2 | cut -c1-200)"
done
