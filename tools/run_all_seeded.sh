#!/bin/bash
# run_all_seeded.sh [skip-ids..] : applies every seeded change in turn and runs the first check listed in its
# meta.json "caught_by"; one line per change. /repo must be clean; nothing else may use /repo meanwhile.
cd /verif
for d in seeded/*/; do
  id=$(basename $d)
  case " $* " in *" $id "*) echo "seeded=$id skipped"; continue;; esac
  c=$(python3 -c "import json;print(json.load(open('$d/meta.json'))['caught_by'][0])")
  tools/run_seeded.sh $id $c | head -1 | cut -c1-160
done
