#!/bin/bash
# ingest_seeded.sh <worktree> <id> <property> : confirms a sub-agent's seeded change in its scratch worktree
# (tools/confirm_seeded.sh) and copies patch, demonstration and the author's notes to /verif/seeded/<id>/.
W=$1; ID=$2; PROP=$3
D=/verif/seeded/$ID
mkdir -p "$D"
( cd "$W" && git diff -- src > patch.diff )
out=$(/verif/tools/confirm_seeded.sh "$W" 2>&1)
echo "$out"
cp "$W/patch.diff" "$D/patch.diff"
[ -f "$W/tests/seeded_demo.rs" ] && cp "$W/tests/seeded_demo.rs" "$D/seeded_demo.rs"
[ -f "$W/demo.sh" ] && cp "$W/demo.sh" "$D/demo.sh"
for f in "$W"/demo_*.rs "$W"/demo_input*.rs; do [ -f "$f" ] && cp "$f" "$D/"; done
[ -f "$W/SEEDED.md" ] && cp "$W/SEEDED.md" "$D/SEEDED.md"
s1=$(echo "$out" | grep -c "step1.*other_failures=\[\]")
s2=$(echo "$out" | grep "^step2" | grep -vc "exit=0 ")
s3=$(echo "$out" | grep -c "^step3.*exit=0 ")
echo "confirm: suite_ok=$s1 demo_fails_with=$s2 demo_passes_without=$s3"
