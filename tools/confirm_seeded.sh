#!/bin/bash
# confirm_seeded.sh <worktree> : re-checks a seeded change in its scratch worktree:
#  (1) with the change the existing suite passes (only the demo fails), (2) the demo fails with the change,
#  (3) the demo passes without it. Prints a one-line verdict per step.
W=$1
cd "$W" || exit 2
export CARGO_NET_OFFLINE=true
test -s patch.diff || git diff -- src > patch.diff
test -f tests/seeded_demo.rs && mv tests/seeded_demo.rs /tmp/seeded_demo.$$.rs
out=$(cargo test --offline --no-fail-fast 2>&1)
test -f /tmp/seeded_demo.$$.rs && mv /tmp/seeded_demo.$$.rs tests/seeded_demo.rs
failed=$(echo "$out" | grep -E "^test .* FAILED|error: test failed|^warning" | head -5)
nres=$(echo "$out" | grep -c "^test result: ok")
echo "step1 existing-suite-with-change: ok_binaries=$nres other_failures=[${failed}]"
if [ -f tests/seeded_demo.rs ]; then
  cargo test --offline --test seeded_demo >/dev/null 2>&1; echo "step2 demo-with-change exit=$? (must be non-zero)"
  git apply -R patch.diff
  cargo test --offline --test seeded_demo >/dev/null 2>&1; echo "step3 demo-without-change exit=$? (must be 0)"
  git apply patch.diff
elif [ -f demo.sh ]; then
  bash demo.sh >/dev/null 2>&1; echo "step2 demo-with-change exit=$? (must be non-zero)"
  git apply -R patch.diff
  bash demo.sh >/dev/null 2>&1; echo "step3 demo-without-change exit=$? (must be 0)"
  git apply patch.diff
fi
git diff --stat -- src | tail -1
