#!/usr/bin/env python3
"""Writes /verif/MANIFEST.json from the table below (kept here so the manifest stays consistent)."""
import json, subprocess

HOOK_COMMIT = subprocess.run(["git", "-C", "/repo", "log", "--format=%H", "--grep=verif hook", "-n", "1"],
                             capture_output=True, text=True).stdout.strip()

CHECKS = {
    "C01": dict(engine="R+P", design="5/C01",
                technique="property-based testing: grammar-constructed derive requests compiled by real rustc (validity oracle), proptest choice streams with shrinking",
                text="Generated-input search over the documented request grammar; each request must be accepted in-process and its expansion must compile without errors or warnings under rustc. Finds counterexamples, never proves absence.",
                note="rustc 1.95/x86-64 is the compile oracle; generator only emits documented forms with well-typed user parts; most lints are silent inside macro output"),
    "C12": dict(engine="P", design="5/C12",
                technique="property-based testing: generated generics x bound modes, syntactic model oracle on every generated impl header (in-process expansion)",
                text="For generated generic parameter lists, where-clauses and bound spellings, every impl header of the expansion is compared with a reference model (parameters minus defaults, self type, user predicates plus exactly the additions the mode prescribes).",
                note="token text of the in-process Ok path is faithful; predicates compared as multisets with canonical trait paths; automatic mode is only checked for header and user predicates (C11 owns the rest)"),
    "C13": dict(engine="P+R", design="5/C13",
                technique="property-based testing with fault injection: 14 fault operators on valid generated requests, oracle = expansion must be Err; panics confirmed through rustc",
                text="Each case is a valid request (accepted in the same run) plus exactly one invalid construct from the statement at a generated position; it must be refused. A sample of refusals and every in-process panic is re-checked through the shipping macro under rustc.",
                note="operators only build constructs the statement lists; a request that is refused for a second reason would mask a missing check, so operators keep the fault single"),
    "C14": dict(engine="P", design="5/C14",
                technique="property-based metamorphic testing: two independent spelling assignments of one generated request must expand to the same multiset of impl items",
                text="Metamorphic relation over all documented spellings, attribute layouts and trait/parameter orders; outputs compared token-for-token as multisets of items.",
                note="Into-impl order is C16's subject and is factored out by the multiset comparison"),
    "C15": dict(engine="P", design="5/C15",
                technique="property-based metamorphic testing: dropping or re-configuring all other traits must leave one trait's impl items token-identical",
                text="For a generated request and a chosen trait t, the impl items of t are compared between the full request and one where every other trait (except the documented partner) is dropped or re-configured.",
                note="documented couplings Copy/Clone, Eq/PartialEq, Ord/PartialOrd are kept together"),
    "C16": dict(engine="P", design="5/C16",
                technique="property-based testing: repeated expansion (8x in-process, forwards/backwards history, 6-32 fresh processes, emptied and hostile environments) and build differentials (dev vs release profile; syn with and without its full feature), a source-position differential through real rustc, over generated multi-Into, double-fault, integer-heavy and expression-heavy requests; outputs must be identical",
                text="Detects nondeterministic output or diagnostics probabilistically: every HashMap in the subject gets a fresh RandomState per expansion and per process; state leaking between expansions shows in the history pass; dependence on the build profile shows in the dev/release differential.",
                note="a nondeterministic order over k items survives with probability (1/k!)^7 per case"),
    "C17": dict(engine="P+R", design="5/C17",
                technique="property-based fuzzing: token-level mutants of valid requests, the same requests as a macro_rules! body hands them over (fragments in None-delimited groups, whole, partial and exotic) and a bounded-exhaustive attribute grid, expanded in CPU-time-limited child processes (a crash or a busy loop names its input), every candidate re-run through rustc; nesting ladder; libFuzzer lane in the thorough tier",
                text="Tens of thousands of structure-aware token mutants per run must yield Ok or a renderable Err; panics, process deaths (stack overflow, abort) and CPU-time exhaustion are candidates that are confirmed with the shipping macro under rustc. Non-termination is decided by CPU time (120 s in the child, 60 s inside rustc for a request whose neighbours need microseconds); a wall-clock-only timeout is exit 2.",
                note="fallback-printer-only panics are not reported; depth beyond 64 is only sampled by the ladder (open finding F4b)"),
}

BEHAVE = {
 "C02": ("5/C02","PartialEq against a rendered field-wise oracle over enumerated value pairs (+ equivalence laws on triples)"),
 "C03": ("5/C03","PartialOrd/Ord against a rendered rank-ordered lexicographic oracle over same-variant pairs (+ order laws on triples)"),
 "C04": ("5/C04","enum ordering against declared discriminants from four memory placements, over repr/discriminant/payload/variant-count classes"),
 "C05": ("5/C05","Hash observed through a recording Hasher against per-field recorded sequences (reference model), all value pairs"),
 "C06": ("5/C06","Debug output against an oracle written with core::fmt builders, both formats, plus a #[derive(Debug)] differential twin"),
 "C07": ("5/C07","clone/clone_from against provenance-instrumented field types (Tracked, Weird), all ordered pairs"),
 "C08": ("5/C08","default()/new() against the value the model designates, over literal kinds x field types x marker positions"),
 "C09": ("5/C09","Deref/DerefMut by address identity with the designated field and write-through frame check"),
 "C10": ("5/C10","Into against the model's designated field per target, plus trait-resolution probes for non-requested targets"),
 "C20": ("5/C20","union impls against byte-pattern values (every single-byte difference) and byte-level oracles; unsafe-gating checked in-process"),
}
for pid,(design,what) in BEHAVE.items():
    CHECKS[pid] = dict(engine="R" if pid!="C20" else "R+P", design=design,
        technique="property-based testing with a reference-model oracle: generated type definitions compiled with the shipping macro by real rustc, observer compares educe's impl with a rendered oracle over enumerated values; "+what,
        text="Each generated type is rendered with an oracle written from the documented semantics (sharing no code with educe) and an observer that enumerates values and checks every pair/triple; failures shrink through proptest to a minimal definition. "+what+".",
        note="value domains are small by design (2-4 values per field, every single-field variation present); x86-64, rustc 1.95 debug build; requests hitting an open compile-level finding of C01 are excluded by construction and counted")
CHECKS = dict(sorted(CHECKS.items()))

CHECKS["C11"] = dict(engine="R", design="5/C11",
    technique="property-based testing with a reference model: generated generic types probed with compile-time trait-resolution tests for every Yes/NoX instantiation, expected value from a model of delegated fields and std's documented impls (self-validated)",
    text="For generated generic types and every instantiation of their parameters with marker types that do or do not implement the trait, `Type<Args>: Trait` is evaluated by the compiler and compared with the model: all delegated fields implement the required trait and educed supertraits apply.",
    note="structs, enums and unions; the std-impl table covers eleven type constructors (incl. raw pointers and two-parameter tuples) and probes itself in the same program (a disagreement is exit 2); requests hitting an open C01 finding are excluded")
CHECKS["C18"] = dict(engine="C+P", design="5/C18",
    technique="configuration enumeration + property-based differential testing: feature subsets built with cargo (all 4096 in the thorough tier, plus the non-trait feature `full` alone / with one trait / with all), subset-built driver vs all-features expansion over generated valid and invalid requests",
    text="Build half: cargo check of /repo with exactly the subset must succeed warning-free (empty set: explicit message). Behaviour half: the subject compiled with the subset must expand generated requests over enabled traits to the same tokens as the all-features build and refuse disabled traits as unsupported. Thorough tier is exhaustive over subsets.",
    note="quick tier samples ~100 subsets for the build half and ~19 for the behaviour half; per-worker cargo target directories under /verif/target/feat-*")
CHECKS["C19"] = dict(engine="R+P", design="5/C19",
    technique="property-based differential testing across naming environments: C02-C08 observers re-run with user identifiers harvested from educe's own output, inside a prelude-shadowing module, and in a #![no_std] crate",
    text="The generated types and oracles of C02, C03, C05, C06, C07, C08 are re-generated with hostile identifiers (harvested each run from the expansion itself) and in a module that shadows Option/Some/None/Result/Ordering/Clone/... ; they must compile warning-free and behave as in the neutral context. A no_std library lane compiles generated requests without std.",
    note="macros are not shadowed; the type's own name is not drawn from the hostile pool (the statement lists field, variant, lifetime, const- and type-parameter names)")
CHECKS = dict(sorted(CHECKS.items()))
ALL = ["C%02d" % i for i in range(1, 21)]

def main():
    checks = []
    for pid, c in CHECKS.items():
        checks.append({
            "property_id": pid,
            "quick_cmd": f"./check {pid} --tier quick",
            "thorough_cmd": f"./check {pid} --tier thorough",
            "evidence_file": f"/verif/evidence/{pid}.json",
            "replay_cmd_template": f"./check {pid} --replay {{path}}",
            "engine": c["engine"],
            "level_claimed": {"category": "exploration", "text": c["text"], "design_ref": c["design"]},
            "level_note": c["note"],
            "technique": c["technique"],
        })
    na = [{"property_id": p, "reason": "check not built yet in this round (planned, see DESIGN.md section 5); not claimed until it runs"} for p in ALL if p not in CHECKS]
    m = {
        "version": 1,
        "setup_cmd": "./setup.sh",
        "hooks": {
            "guard": "magiclen_educe_verif",
            "enable": "RUSTFLAGS=--cfg magiclen_educe_verif (set in /verif/harness/.cargo/config.toml) when harness/educe_inproc compiles /repo/src/lib.rs as an rlib exposing verif_expand()",
            "baseline_off_cmd": "cd /repo && cargo nextest run --workspace --no-fail-fast --tool-config-file pb:/w/lib/nextest.toml --profile pb --test-threads 8 --offline || cargo test --workspace --no-fail-fast --offline",
            "source_commits": [HOOK_COMMIT],
            "add_only": True,
        },
        "engines": [
            {"name": "R", "path": "harness/vcheck/src/engine.rs", "kind_free_text": "real rustc driving the shipping proc macro rebuilt from /repo; batches of generated types with rendered oracles and observers"},
            {"name": "P", "path": "harness/vcheck/src/engine.rs", "kind_free_text": "in-process expansion through the cfg-guarded verif_expand hook"},
            {"name": "C", "path": "harness/vcheck/src/props/c18.rs", "kind_free_text": "feature-configuration builder: cargo check of /repo and a subset-built in-process driver (harness/featdrv) per feature subset"},
        ],
        "checks": checks,
        "not_applicable": na,
        "notes": "All checks are property-based tests over generated derive requests (proptest-generated choice streams, construction not rejection), fixed-work tiers, VERIF_SEED-deterministic. Exit 2 = inconclusive (tooling), never a violation.",
    }
    for e in m["engines"]:
        e["serves_properties"] = [p for p, c in CHECKS.items() if e["name"] in c["engine"]]
    json.dump(m, open("/verif/MANIFEST.json", "w"), indent=1)
    print("wrote MANIFEST.json with", len(checks), "checks")

main()
