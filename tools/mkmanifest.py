#!/usr/bin/env python3
"""Writes /verif/MANIFEST.json from the table below (kept here so the manifest stays consistent)."""
import json, subprocess

HOOK_COMMIT = subprocess.run(["git", "-C", "/repo", "log", "--format=%H", "--grep=verif hook", "-n", "1"],
                             capture_output=True, text=True).stdout.strip()

CHECKS = {
    "C01": dict(engine="R+P", design="5/C01",
                technique="property-based testing: grammar-constructed derive requests compiled by real rustc (validity oracle), proptest choice streams with shrinking",
                text="Generated-input search over the documented request grammar; each request must be accepted in-process and its expansion must compile without errors or warnings under rustc. Finds counterexamples, never proves absence.",
                note="rustc 1.95/x86-64 is the compile oracle; generator only emits documented forms with well-typed user parts; most lints are silent inside macro output"),
}
ALL = ["C%02d" % i for i in range(1, 21)]

def main():
    checks = []
    for pid, c in CHECKS.items():
        checks.append({
            "property_id": pid,
            "quick_cmd": f"./check {pid} --tier quick",
            "thorough_cmd": f"./check {pid} --tier thorough",
            "evidence_file": f"/verif/evidence/{pid}.json",
            "replay_cmd_template": f"./check {pid} --replay {{path}}",
            "engine": c["engine"],
            "level_claimed": {"category": "exploration", "text": c["text"], "design_ref": c["design"]},
            "level_note": c["note"],
            "technique": c["technique"],
        })
    na = [{"property_id": p, "reason": "check not built yet in this round (planned, see DESIGN.md section 5); not claimed until it runs"} for p in ALL if p not in CHECKS]
    m = {
        "version": 1,
        "setup_cmd": "./setup.sh",
        "hooks": {
            "guard": "magiclen_educe_verif",
            "enable": "RUSTFLAGS=--cfg magiclen_educe_verif (set in /verif/harness/.cargo/config.toml) when harness/educe_inproc compiles /repo/src/lib.rs as an rlib exposing verif_expand()",
            "baseline_off_cmd": "cd /repo && cargo nextest run --workspace --no-fail-fast --tool-config-file pb:/w/lib/nextest.toml --profile pb --test-threads 8 --offline || cargo test --workspace --no-fail-fast --offline",
            "source_commits": [HOOK_COMMIT],
            "add_only": True,
        },
        "engines": [
            {"name": "R", "path": "harness/vcheck/src/engine.rs", "kind_free_text": "real rustc driving the shipping proc macro rebuilt from /repo; batches of generated types with rendered oracles and observers"},
            {"name": "P", "path": "harness/vcheck/src/engine.rs", "kind_free_text": "in-process expansion through the cfg-guarded verif_expand hook"},
        ],
        "checks": checks,
        "not_applicable": na,
        "notes": "All checks are property-based tests over generated derive requests (proptest-generated choice streams, construction not rejection), fixed-work tiers, VERIF_SEED-deterministic. Exit 2 = inconclusive (tooling), never a violation.",
    }
    for e in m["engines"]:
        e["serves_properties"] = [p for p, c in CHECKS.items() if e["name"] in c["engine"]]
    json.dump(m, open("/verif/MANIFEST.json", "w"), indent=1)
    print("wrote MANIFEST.json with", len(checks), "checks")

main()
