#!/usr/bin/env python3
"""Regenerates the table of section 14 of DESIGN.md from /verif/seeded/*/meta.json (keeps the prose after it)."""
import json, glob, re
p='/verif/DESIGN.md'
s=open(p).read()
i=s.index("| id | breaks | what the change needs in order to manifest | caught by |")
j=s.index("\nChanges that were **missed at first**")
rows=[]
for f in sorted(glob.glob('/verif/seeded/*/meta.json')):
    m=json.load(open(f))
    missed='MISSED' in m.get('notes','')
    rows.append(f"| {m['id']} | {m['breaks']} | {m['needs']} | {', '.join(m['caught_by'])}{' — **missed at first**, see below' if missed else ''} |")
s=s[:i]+"| id | breaks | what the change needs in order to manifest | caught by |\n|---|---|---|---|\n"+"\n".join(rows)+"\n"+s[j:]
open(p,'w').write(s)
print(len(rows),"rows")
