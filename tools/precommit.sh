#!/bin/bash
# precommit.sh : refuses to go on unless /repo is clean and every evidence file comes from a silent run
cd /verif
if ! git -C /repo diff --quiet; then echo "/repo has uncommitted changes"; exit 1; fi
python3 - <<'P' || exit 1
import json,glob,sys
bad=[f for f in sorted(glob.glob('/verif/evidence/*.json')) if json.load(open(f))['exit_code']!=0 or json.load(open(f))['violations']]
if bad: print("evidence from a failing run:",bad); sys.exit(1)
print("evidence ok")
P
