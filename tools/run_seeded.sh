#!/bin/bash
# run_seeded.sh <seeded-id> <check> [<check>..] : applies /verif/seeded/<id>/patch.diff to /repo's working tree,
# runs the given quick checks, and restores /repo. Prints one verdict line per check.
ID=$1; shift
P=/verif/seeded/$ID/patch.diff
test -f "$P" || { echo "no patch for $ID"; exit 2; }
if ! git -C /repo diff --quiet; then echo "/repo has uncommitted changes"; exit 2; fi
git -C /repo apply "$P" || { echo "patch does not apply"; exit 2; }
trap 'git -C /repo checkout -- . ' EXIT
cd /verif
for c in "$@"; do
  out=$(./check $c --tier quick 2>&1); code=$?
  echo "seeded=$ID check=$c exit=$code $(echo "$out" | grep -E '^(PASS|FAIL|INCONCLUSIVE)' | tail -1 | cut -c1-150)"
  echo "$out" | grep -E "^  detail" | head -2 | cut -c1-260
done
