#!/bin/bash
# run_all_quick.sh [seed] : every quick check once on the current tree, one summary line each
export VERIF_SEED=${1:-0}
mkdir -p /verif/work/logs
for i in 01 02 03 04 05 06 07 08 09 10 11 12 13 14 15 16 17 18 19 20; do
  s=$(date +%s); ./check C$i --tier quick > /verif/work/logs/q_C$i.log 2>&1; rc=$?; e=$(date +%s)
  echo "C$i seed=$VERIF_SEED rc=$rc $((e-s))s known=$(grep -c KNOWN-FINDING /verif/work/logs/q_C$i.log) $(grep -E 'VIOLATION|INCONCLUSIVE' /verif/work/logs/q_C$i.log | head -2 | cut -c1-150)"
done
