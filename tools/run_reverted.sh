#!/bin/bash
# run_reverted.sh <fix-commit> <check> [<check>..] : reverse-applies the src/ part of one "fix:" commit of /repo to the
# working tree (the defect returns, everything else stays), runs the given quick checks and restores /repo.
# A fixed entry in known_findings.json suppresses nothing, so every run must end in exit 1 with a VIOLATION line.
C=$1; shift
if ! git -C /repo diff --quiet; then echo "/repo has uncommitted changes"; exit 2; fi
git -C /repo show "$C" -- src | git -C /repo apply -R || { echo "fix $C does not reverse-apply"; exit 2; }
trap 'git -C /repo checkout -- . ' EXIT
cd /verif
for c in "$@"; do
  out=$(./check $c --tier quick 2>&1); code=$?
  echo "reverted=$C check=$c exit=$code $(echo "$out" | grep -E '^(PASS|FAIL|INCONCLUSIVE)' | tail -1 | cut -c1-150)"
  echo "$out" | grep -E "^VIOLATION|^KNOWN-FINDING" | head -3 | cut -c1-200
  echo "$out" | grep -E "^  detail" | head -2 | cut -c1-260
done
