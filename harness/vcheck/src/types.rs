//! The field-type table: every type the generators may put in a field, with its small value
//! domain and the std traits it implements (the `caps` are facts about std and the prelude, and
//! are self-checked by `selftest`).
#![allow(dead_code)]

use crate::spec::{caps::*, FTy};

fn ft(src: &str, vals: &[&str], caps: u16) -> FTy {
    FTy {
        src: src.to_string(),
        inst: src.to_string(),
        vals: vals.iter().map(|s| s.to_string()).collect(),
        caps,
        params: vec![],
        refs: 0,
        default_val: None,
        clone_methods: vec!["m_clone_std".to_string()],
    }
}

/// plain, fully capable types first (index 0 = simplest)
pub fn base_types() -> Vec<FTy> {
    let mut v = vec![
        ft("u8", &["1u8", "2u8", "7u8"], ALL | CONSTVAL),
        ft("i16", &["-3i16", "0i16", "300i16"], ALL | CONSTVAL),
        ft("u64", &["5u64", "6u64", "1099511627776u64"], ALL | CONSTVAL),
        ft("bool", &["false", "true"], ALL | CONSTVAL),
        ft("char", &["'a'", "'b'", "'\\u{e9}'"], ALL | CONSTVAL),
        ft("&'static str", &["\"x\"", "\"yy\"", "\"\""], ALL | CONSTVAL),
        ft("String", &["String::from(\"s\")", "String::from(\"tt\")", "String::new()"], ALL & !COPY),
        ft("Option<u8>", &["None", "Some(1u8)", "Some(9u8)"], ALL | CONSTVAL),
        ft("(u8, i8)", &["(1u8, 1i8)", "(1u8, -1i8)", "(2u8, 0i8)"], ALL | CONSTVAL),
        ft("[u8; 2]", &["[1u8, 2u8]", "[2u8, 1u8]", "[0u8, 0u8]"], ALL | CONSTVAL),
        ft("Vec<u8>", &["vec![1u8]", "vec![1u8, 2u8]", "Vec::new()"], ALL & !COPY),
        ft("()", &["()"], ALL | CONSTVAL),
        ft("u32", &["10u32", "20u32", "4000000000u32"], ALL | CONSTVAL),
        ft("i64", &["-1i64", "1i64", "-9000000000i64"], ALL | CONSTVAL),
        ft("u16", &["3u16", "4u16", "65535u16"], ALL | CONSTVAL),
        // implements every std trait normally and has inherent methods of the same names that answer wrongly
        ft("Decoy", &["Decoy(1)", "Decoy(2)", "Decoy(200)"], ALL | CONSTVAL),
        // an array whose length is a constant expression, of a non-Copy element type: only `[E; LEN]: Default` itself builds it
        ft("[String; 1 + 1]", &["[String::from(\"a\"), String::new()]", "[String::new(), String::from(\"b\")]", "[String::new(), String::new()]"], ALL & !COPY),
        // Ord and PartialOrd disagree (see the prelude)
        ft("Skew", &["Skew(1)", "Skew(2)", "Skew(7)"], ALL | CONSTVAL),
        // not the Into target `Wrap`, although it is spelled with that name at the end of its path
        ft("crate::prelude::alt::Wrap", &["crate::prelude::alt::Wrap(1)", "crate::prelude::alt::Wrap(2)", "crate::prelude::alt::Wrap(-3)"], ALL | CONSTVAL),
    ];
    v[5].refs = 1;
    v[0].clone_methods.push("m_clone_u8".into());
    v[1].clone_methods.push("m_clone_i16".into());
    v[6].clone_methods.push("m_clone_string".into());
    v
}

/// types that lack some capability (used only where the trait set permits)
pub fn partial_types() -> Vec<FTy> {
    vec![
        ft("f32", &["0.0f32", "f32::NAN", "-0.0f32", "1.5f32"], DEBUG | CLONE | COPY | PEQ | PORD | DEFAULT | KEY | CONSTVAL),
        ft("Inc", &["Inc(1)", "Inc(3)", "Inc(4)", "Inc(2)"], DEBUG | CLONE | COPY | PEQ | EQ | PORD | HASH | DEFAULT | KEY | CONSTVAL),
        ft(
            "::core::num::NonZeroU8",
            &["::core::num::NonZeroU8::new(1).unwrap()", "::core::num::NonZeroU8::new(2).unwrap()", "::core::num::NonZeroU8::new(255).unwrap()"],
            (ALL & !DEFAULT),
        ),
        ft("NoDebug", &["NoDebug(1)", "NoDebug(2)"], (ALL & !DEBUG) | CONSTVAL),
        ft("NoClone", &["NoClone(1)", "NoClone(2)"], ALL & !CLONE & !COPY),
        ft("NoPartialEq", &["NoPartialEq(1)", "NoPartialEq(2)"], DEBUG | CLONE | COPY | HASH | DEFAULT | KEY | CONSTVAL),
        ft("NoPartialOrd", &["NoPartialOrd(1)", "NoPartialOrd(2)"], DEBUG | CLONE | COPY | PEQ | EQ | HASH | DEFAULT | KEY | CONSTVAL),
        ft("NoOrd", &["NoOrd(1)", "NoOrd(2)"], DEBUG | CLONE | COPY | PEQ | EQ | PORD | HASH | DEFAULT | KEY | CONSTVAL),
        ft("NoHash", &["NoHash(1)", "NoHash(2)"], (ALL & !HASH) | CONSTVAL),
        ft("NoDefault", &["NoDefault(1)", "NoDefault(2)"], (ALL & !DEFAULT) | CONSTVAL),
    ]
}

pub fn tracked() -> FTy {
    let mut t = ft("Tracked", &["tr(11)", "tr(22)", "tr(33)"], ALL & !COPY);
    t.clone_methods = vec!["m_clone_tracked".into()];
    t
}
pub fn weird() -> FTy {
    let mut t = ft("Weird", &["Weird(1)", "Weird(2)", "Weird(3)"], ALL | CONSTVAL);
    t.clone_methods = vec![];
    t
}

#[derive(Clone, Copy, Debug, PartialEq, Eq)]
pub enum Wrapk {
    Vec,
    Option,
    Box,
    Arr2,
    Tup,
    Ref,
    Phantom,
    Wrapper,
    /// `&'lt mut X` (Deref/DerefMut designations only; values are leaked boxes)
    RefMut,
    /// `&'lt &'lt X`
    RefRef,
    /// `*const X`: implements every comparison/formatting trait whatever X is, never Default
    Ptr,
}
pub const WRAPS: [Wrapk; 9] =
    [Wrapk::Option, Wrapk::Vec, Wrapk::Tup, Wrapk::Arr2, Wrapk::Box, Wrapk::Ref, Wrapk::Phantom, Wrapk::Wrapper, Wrapk::Ptr];

/// apply a type constructor; `lt` is the lifetime name for `Ref`
pub fn wrap(k: Wrapk, x: &FTy, lt: Option<&str>) -> Option<FTy> {
    let v = &x.vals;
    let v0 = &v[0];
    let v1 = v.get(1).unwrap_or(v0);
    let cmp = x.caps & (DEBUG | PEQ | EQ | PORD | ORD | HASH | KEY);
    let mut params = x.params.clone();
    let (src, inst, vals, caps, refs) = match k {
        Wrapk::Vec => (
            format!("Vec<{}>", x.src),
            format!("Vec<{}>", x.inst),
            vec![format!("vec![{v0}]"), format!("vec![{v1}, {v0}]"), "Vec::new()".to_string()],
            cmp | (x.caps & CLONE) | DEFAULT,
            0,
        ),
        Wrapk::Option => (
            format!("Option<{}>", x.src),
            format!("Option<{}>", x.inst),
            vec!["None".to_string(), format!("Some({v0})"), format!("Some({v1})")],
            cmp | (x.caps & (CLONE | COPY | CONSTVAL)) | DEFAULT,
            0,
        ),
        Wrapk::Box => (
            format!("Box<{}>", x.src),
            format!("Box<{}>", x.inst),
            vec![format!("Box::new({v0})"), format!("Box::new({v1})")],
            cmp | (x.caps & (CLONE | DEFAULT)),
            0,
        ),
        Wrapk::Arr2 => (
            format!("[{}; 2]", x.src),
            format!("[{}; 2]", x.inst),
            vec![format!("[{v0}, {v1}]"), format!("[{v1}, {v0}]"), format!("[{v0}, {v0}]")],
            cmp | (x.caps & (CLONE | COPY | DEFAULT | CONSTVAL)),
            0,
        ),
        Wrapk::Tup => (
            format!("({}, u8)", x.src),
            format!("({}, u8)", x.inst),
            vec![format!("({v0}, 0u8)"), format!("({v1}, 0u8)"), format!("({v0}, 1u8)")],
            cmp | (x.caps & (CLONE | COPY | DEFAULT | CONSTVAL)),
            0,
        ),
        Wrapk::Ref => {
            if !x.has(CONSTVAL) || x.refs > 0 {
                return None;
            }
            let lt = lt?;
            params.push(format!("'{lt}"));
            (
                format!("&'{lt} {}", x.src),
                format!("&'static {}", x.inst),
                v.iter().map(|e| format!("&{e}")).collect(),
                cmp | CLONE | COPY | CONSTVAL,
                1,
            )
        },
        Wrapk::RefMut => {
            if x.refs > 0 {
                return None;
            }
            let lt = lt?;
            params.push(format!("'{lt}"));
            (
                format!("&'{lt} mut {}", x.src),
                format!("&'static mut {}", x.inst),
                v.iter().map(|e| format!("::std::boxed::Box::leak(::std::boxed::Box::new({e}))")).collect(),
                cmp,
                1,
            )
        },
        Wrapk::RefRef => {
            if !x.has(CONSTVAL) || x.refs > 0 {
                return None;
            }
            let lt = lt?;
            params.push(format!("'{lt}"));
            (
                format!("&'{lt} &'{lt} {}", x.src),
                format!("&'static &'static {}", x.inst),
                v.iter().map(|e| format!("&&{e}")).collect(),
                cmp | CLONE | COPY | CONSTVAL,
                2,
            )
        },
        Wrapk::Ptr => (
            format!("*const {}", x.src),
            format!("*const {}", x.inst),
            vec![format!("8usize as *const {}", x.inst), format!("16usize as *const {}", x.inst), format!("::core::ptr::null::<{}>()", x.inst)],
            DEBUG | CLONE | COPY | PEQ | EQ | PORD | ORD | HASH | KEY,
            0,
        ),
        Wrapk::Phantom => (
            format!("PhantomData<{}>", x.src),
            format!("PhantomData<{}>", x.inst),
            vec!["PhantomData".to_string()],
            ALL | CONSTVAL,
            0,
        ),
        Wrapk::Wrapper => (
            format!("Wrapper<{}>", x.src),
            format!("Wrapper<{}>", x.inst),
            v.iter().map(|e| format!("Wrapper({e})")).collect(),
            x.caps,
            0,
        ),
    };
    // distinctness of value expressions must survive wrapping
    let mut vals = vals;
    vals.dedup();
    Some(FTy {
        src,
        inst,
        vals,
        caps,
        params,
        refs,
        default_val: None,
        clone_methods: if caps & CLONE != 0 { vec!["m_clone_std".into()] } else { vec![] },
    })
}

/// `crate::prelude::homonyms::<Name><X>`: a generic wrapper whose last path segment is the deriving type's own name
pub fn homonym(type_name: &str, x: &FTy) -> Option<FTy> {
    if !matches!(type_name, "Ty" | "Alpha" | "Node" | "Item9") {
        return None;
    }
    let mut t = wrap(Wrapk::Wrapper, x, None)?;
    let path = format!("crate::prelude::homonyms::{type_name}");
    t.src = t.src.replacen("Wrapper", &path, 1);
    t.inst = t.inst.replacen("Wrapper", &path, 1);
    t.vals = t.vals.iter().map(|v| v.replacen("Wrapper", &path, 1)).collect();
    Some(t)
}

/// `(A, B)` over two parameter uses
pub fn tup2(a: &FTy, b: &FTy) -> FTy {
    let (a0, a1) = (&a.vals[0], a.vals.get(1).unwrap_or(&a.vals[0]));
    let (b0, b1) = (&b.vals[0], b.vals.get(1).unwrap_or(&b.vals[0]));
    let mut vals = vec![format!("({a0}, {b0})"), format!("({a1}, {b0})"), format!("({a0}, {b1})")];
    vals.dedup();
    let caps = a.caps & b.caps;
    let mut params = a.params.clone();
    for p in &b.params {
        if !params.contains(p) {
            params.push(p.clone());
        }
    }
    FTy {
        src: format!("({}, {})", a.src, b.src),
        inst: format!("({}, {})", a.inst, b.inst),
        vals,
        caps,
        params,
        refs: 0,
        default_val: None,
        clone_methods: if caps & CLONE != 0 { vec!["m_clone_std".into()] } else { vec![] },
    }
}

/// a bare use of type parameter `name` instantiated with `base`
pub fn param_ty(name: &str, base: &FTy) -> FTy {
    let mut t = base.clone();
    t.src = name.to_string();
    t.params = vec![name.to_string()];
    t.clone_methods = if t.caps & CLONE != 0 { vec!["m_clone_std".into()] } else { vec![] };
    t
}

/// `[u8; N]` with const parameter `n` instantiated at 2
pub fn const_arr(n: &str) -> FTy {
    // `[u8; N]: Default` does not hold for every N, but the automatic where-clause `[u8; N]: Default` makes the impl
    // legal and applicable to the instantiation N = 2, which is exactly what C11 states
    let mut t = ft("[u8; 2]", &["[1u8, 2u8]", "[2u8, 1u8]", "[0u8, 0u8]"], ALL | CONSTVAL);
    t.src = format!("[u8; {n}]");
    t.params = vec![n.to_string()];
    t
}

/// `&'a str`
pub fn lt_str(lt: &str) -> FTy {
    let mut t = ft("&'static str", &["\"x\"", "\"yy\"", "\"\""], ALL | CONSTVAL);
    t.src = format!("&'{lt} str");
    t.params = vec![format!("'{lt}")];
    t.refs = 1;
    t
}

/// Default-expression table: (expression source, is_literal, [(field type, expected value)])
pub fn default_exprs() -> Vec<(&'static str, Vec<(&'static str, &'static str)>)> {
    vec![
        ("7", vec![("IntoOnly", "IntoOnly(1007)"), ("AliasI32", "7i32"), ("u8", "7u8"), ("i64", "7i64"), ("u64", "7u64"), ("f64", "7f64"), ("Wrap", "Wrap(7)"), ("i16", "7i16"), ("usize", "7usize")]),
        ("1.5", vec![("f64", "1.5f64"), ("f32", "1.5f32"), ("Wrap", "Wrap(12)")]),
        ("true", vec![("bool", "true"), ("Wrap", "Wrap(1)"), ("Option<bool>", "Some(true)")]),
        ("'M'", vec![("char", "'M'"), ("u32", "77u32"), ("Wrap", "Wrap(77)")]),
        ("\"Hi\"", vec![("&'static str", "\"Hi\""), ("String", "String::from(\"Hi\")"), ("Wrap", "Wrap(2)")]),
        ("b'x'", vec![("u8", "120u8"), ("u16", "120u16"), ("Wrap", "Wrap(120)")]),
        ("b\"ab\"", vec![("&'static [u8; 2]", "&[97u8, 98u8]"), ("Wrap", "Wrap(24930)")]),
        ("7u8", vec![("u8", "7u8"), ("Wrap", "Wrap(7)")]),
        ("2.5f32", vec![("f32", "2.5f32")]),
        ("-5", vec![("i16", "-5i16"), ("i64", "-5i64"), ("Wrap", "Wrap(-5)"), ("AliasI32", "-5i32")]),
        ("-40", vec![("IntoOnly", "IntoOnly(960)"), ("AliasI32", "-40i32"), ("Wrap", "Wrap(-40)"), ("i64", "-40i64"), ("f64", "-40f64")]),
        ("0 + 1", vec![("u8", "1u8"), ("u64", "1u64")]),
        // a comma that no bracket protects (inside `::<..>`): an attribute reader that splits at commas cuts here
        ("pick2::<u8, u16>(5u8, 6u16)", vec![("u8", "5u8")]),
        ("pick2::<i64, bool>(-9i64, true)", vec![("i64", "-9i64")]),
        ("!false", vec![("bool", "true")]),
        ("String::from(\"x\")", vec![("String", "String::from(\"x\")")]),
        ("Some(3u8)", vec![("Option<u8>", "Some(3u8)")]),
        ("11111111111111111111111111111", vec![("i128", "11111111111111111111111111111i128")]),
        ("1.0 + 0.5", vec![("f64", "1.5f64")]),
        ("'a'", vec![("char", "'a'")]),
        ("Wrap(3)", vec![("Wrap", "Wrap(3)")]),
        // values that only survive an exact conversion (an f32 round trip, a narrowing or a re-printed literal would change them)
        ("16777217", vec![("f64", "16777217f64"), ("i64", "16777217i64"), ("u32", "16777217u32"), ("Wrap", "Wrap(16777217)")]),
        ("2147483647", vec![("f64", "2147483647f64"), ("i64", "2147483647i64"), ("i128", "2147483647i128")]),
        ("123456789", vec![("f64", "123456789f64"), ("u64", "123456789u64")]),
        ("16777217.0", vec![("f64", "16777217f64")]),
        ("0.1", vec![("f64", "0.1f64"), ("f32", "0.1f32")]),
        ("1e3", vec![("f64", "1000f64"), ("f32", "1000f32")]),
        ("-1.5", vec![("f64", "-1.5f64"), ("f32", "-1.5f32"), ("Wrap", "Wrap(-12)"), ("AliasF64", "-1.5f64")]),
        // other literal spellings
        ("0xff", vec![("u8", "255u8"), ("i64", "255i64"), ("f64", "255f64"), ("Wrap", "Wrap(255)")]),
        ("1_000", vec![("u64", "1000u64"), ("i16", "1000i16"), ("f64", "1000f64")]),
        ("0b101", vec![("u8", "5u8"), ("u16", "5u16")]),
        ("'\\u{1f600}'", vec![("char", "'\\u{1f600}'"), ("u32", "128512u32")]),
        ("\"\"", vec![("&'static str", "\"\""), ("String", "String::new()")]),
        ("r\"a\\b\"", vec![("&'static str", "\"a\\\\b\""), ("String", "String::from(\"a\\\\b\")")]),
        ("\"q\\\"uote\"", vec![("&'static str", "\"q\\\"uote\""), ("String", "String::from(\"q\\\"uote\")")]),
        ("b'\\n'", vec![("u8", "10u8"), ("u16", "10u16")]),
        ("false", vec![("bool", "false"), ("Option<bool>", "Some(false)")]),
        // non-literal expressions that derive-mode syn parses: never converted
        ("u8::MAX", vec![("u8", "255u8")]),
        ("i64::MIN", vec![("i64", "i64::MIN")]),
        ("7 as u64", vec![("u64", "7u64")]),
        ("(2 + 3) * 2", vec![("u8", "10u8"), ("i64", "10i64")]),
        ("\"ab\".len()", vec![("usize", "2usize")]),
        ("i64::from(3u8)", vec![("i64", "3i64")]),
        ("&7u8", vec![("&'static u8", "&7u8")]),
        ("Wrap(3).0", vec![("i64", "3i64")]),
        ("Wrap { 0: 5 }", vec![("Wrap", "Wrap(5)")]),
    ]
}

/// Into targets and which source types reach them how
pub const INTO_TARGETS: [&str; 8] = ["u8", "u16", "u32", "u64", "i64", "String", "&'static str", "Wrap"];

/// does `src: Into<target>` hold (besides identity)?
pub fn converts(src: &str, target: &str) -> bool {
    matches!(
        (src, target),
        ("u8", "u16") | ("u8", "u32") | ("u8", "u64") | ("u8", "i64") | ("u8", "Wrap")
            | ("u16", "u32") | ("u16", "u64") | ("u16", "i64") | ("u16", "Wrap")
            | ("u32", "u64") | ("u32", "i64") | ("u32", "Wrap")
            | ("i16", "i64") | ("i16", "Wrap")
            | ("i64", "Wrap")
            | ("bool", "u8") | ("bool", "u16") | ("bool", "u32") | ("bool", "u64") | ("bool", "i64") | ("bool", "Wrap")
            | ("char", "u32") | ("char", "u64") | ("char", "String") | ("char", "Wrap")
            | ("&'static str", "String") | ("&'static str", "Wrap")
            | ("String", "Wrap")
            | ("crate::prelude::alt::Wrap", "Wrap")
            | ("Decoy", "u16") | ("Decoy", "u32") | ("Decoy", "u64") | ("Decoy", "i64")
    )
}

pub fn into_method(target: &str) -> &'static str {
    match target {
        "u8" => "m_into_u8",
        "u16" => "m_into_u16",
        "u32" => "m_into_u32",
        "u64" => "m_into_u64",
        "i64" => "m_into_i64",
        "String" => "m_into_string",
        "&'static str" => "m_into_str",
        t if t.starts_with("Option<") => "m_into_none",
        _ => "m_into_wrap",
    }
}

/// niche-carrying and zero-sized payload types (C04)
pub fn niche_types() -> Vec<FTy> {
    vec![
        ft("Inner", &["Inner::A", "Inner::B", "Inner::C"], ALL | CONSTVAL),
        ft("Option<Inner>", &["None", "Some(Inner::A)", "Some(Inner::C)"], ALL | CONSTVAL),
        ft(
            "Option<::core::num::NonZeroU8>",
            &["None", "::core::num::NonZeroU8::new(1)", "::core::num::NonZeroU8::new(255)"],
            ALL | CONSTVAL,
        ),
        ft("&'static u8", &["&1u8", "&2u8", "&200u8"], (ALL & !DEFAULT) | CONSTVAL),
        ft("Option<&'static u8>", &["None", "Some(&1u8)", "Some(&2u8)"], ALL | CONSTVAL),
        ft("Option<bool>", &["None", "Some(false)", "Some(true)"], ALL | CONSTVAL),
        ft("Option<char>", &["None", "Some('a')", "Some('\\u{10FFFF}')"], ALL | CONSTVAL),
        ft("u128", &["1u128", "2u128", "340282366920938463463374607431768211455u128"], ALL | CONSTVAL),
        ft("[u64; 3]", &["[1u64, 2, 3]", "[0u64, 0, 0]", "[18446744073709551615u64, 0, 1]"], ALL | CONSTVAL),
        ft("PhantomData<u64>", &["PhantomData"], ALL | CONSTVAL),
        ft("[u8; 0]", &["[]"], ALL | CONSTVAL),
    ]
}
