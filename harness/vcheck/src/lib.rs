//! The verification library: model, generators, engines, checks. `main.rs` is only the CLI.
pub mod check;
pub mod dna;
pub mod engine;
pub mod faults;
pub mod gen;
pub mod items;
pub mod known;
pub mod mutate;
pub mod props;
pub mod spec;
pub mod types;
