//! Signatures of known findings: a predicate on the generated case plus the failure kind.
//! /verif/known_findings.json (committed, read-only at run time) says which are open.
#![allow(dead_code)]

use std::sync::OnceLock;

use crate::check::Known;

/// identifiers harvested from educe's own output (set by C19 before it evaluates cases)
pub static HARVEST: OnceLock<Vec<String>> = OnceLock::new();
use crate::spec::*;

/// the key under which educe's Into handler files a target or a field type (into/common.rs `to_hash_type`): every leading
/// reference is stripped and one is put back, with the outermost reference's lifetime when that is written out and
/// `'static` when it is elided; anything else is compared as written
pub fn into_key(src: &str) -> String {
    let mut t = src.trim();
    if !t.starts_with('&') {
        return t.split_whitespace().collect::<Vec<_>>().join(" ");
    }
    let mut outer: Option<String> = None;
    let mut first = true;
    while let Some(rest) = t.strip_prefix('&') {
        let mut r = rest.trim_start();
        if let Some(after) = r.strip_prefix('\'') {
            let n = after.find(|c: char| !(c.is_alphanumeric() || c == '_')).unwrap_or(after.len());
            if first {
                outer = Some(after[..n].to_string());
            }
            r = after[n..].trim_start();
        }
        if let Some(after) = r.strip_prefix("mut ") {
            r = after.trim_start();
        }
        first = false;
        t = r;
    }
    format!("&'{} {}", outer.unwrap_or_else(|| "static".to_string()), t.split_whitespace().collect::<Vec<_>>().join(" "))
}

pub fn erase_lifetimes(s: &str) -> String {
    let mut out = String::new();
    let mut it = s.chars().peekable();
    while let Some(c) = it.next() {
        if c == '\'' {
            // a lifetime: tick followed by ident chars and not closed by another tick (char literal)
            let mut ident = String::new();
            while let Some(n) = it.peek() {
                if n.is_alphanumeric() || *n == '_' {
                    ident.push(*n);
                    it.next();
                } else {
                    break;
                }
            }
            out.push_str("'_");
        } else {
            out.push(c);
        }
    }
    out
}

/// effective Debug presentation of a variant: (name shown?, named style?, shown field count)
pub fn debug_variant_view(s: &TypeSpec, vi: usize) -> (bool, bool, usize) {
    let v = &s.variants[vi];
    let ta = s.attr(Tr::Debug);
    let shown = v.fields.iter().filter(|f| !f.ignored(Tr::Debug)).count();
    match s.kind {
        Kind::Enum => {
            let enum_name = matches!(ta.and_then(|a| a.name()), Some(NameV::True) | Some(NameV::Custom(_)));
            let va = v.attrs.iter().find(|a| a.tr == Tr::Debug);
            let vname_off = matches!(va.and_then(|a| a.name()), Some(NameV::False));
            let named = va.and_then(|a| a.named_field()).unwrap_or(v.shape == Shape::Named);
            (enum_name || !vname_off, named, shown)
        },
        _ => {
            let name_off = matches!(ta.and_then(|a| a.name()), Some(NameV::False));
            let named = ta.and_then(|a| a.named_field()).unwrap_or(v.shape != Shape::Tuple);
            (!name_off, named, shown)
        },
    }
}

/// names of all signatures whose case predicate matches this spec
pub fn spec_signatures(s: &TypeSpec) -> Vec<&'static str> {
    let mut out = Vec::new();
    if !s.method_alias.is_empty() {
        out.push("method_function_named_like_a_generated_binding");
    }
    if s.kind == Kind::Enum && s.has(Tr::Debug) {
        for vi in 0..s.variants.len() {
            let (name, named, _shown) = debug_variant_view(s, vi);
            if s.variants[vi].shape != Shape::Unit && !name && !named {
                out.push("debug_enum_variant_tuple_style_without_name");
                break;
            }
        }
    }
    if s.kind == Kind::Enum && (s.has(Tr::PartialOrd) || s.has(Tr::Ord)) {
        if let Some(r) = &s.repr {
            if r.contains('(') {
                out.push("ordered_enum_repr_with_parenthesised_item");
            }
        }
    }
    if s.kind == Kind::Enum
        && s.has(Tr::Copy)
        && s.has(Tr::Clone)
        && !s.gens.types.is_empty()
        && s.all_fields().any(|f| f.method(Tr::Clone).is_some())
    {
        out.push("copy_clone_enum_with_clone_method_and_type_parameter");
    }
    {
        // reference types `&'lt T` (also nested, e.g. inside Option<..>) with the same referent but different lifetimes
        fn refs_of(ty: &str) -> Vec<(String, String)> {
            let mut out = Vec::new();
            let b: Vec<char> = ty.chars().collect();
            let mut i = 0;
            while i + 1 < b.len() {
                if b[i] == '&' && b[i + 1] == '\'' {
                    let mut j = i + 2;
                    let mut lt = String::new();
                    while j < b.len() && (b[j].is_alphanumeric() || b[j] == '_') {
                        lt.push(b[j]);
                        j += 1;
                    }
                    while j < b.len() && b[j] == ' ' {
                        j += 1;
                    }
                    let mut referent = String::new();
                    while j < b.len() && (b[j].is_alphanumeric() || b[j] == '_' || b[j] == ':') {
                        referent.push(b[j]);
                        j += 1;
                    }
                    out.push((lt, referent));
                    i = j;
                } else {
                    i += 1;
                }
            }
            out
        }
        let per_field: Vec<Vec<(String, String)>> = s.all_fields().map(|f| refs_of(&f.ty.src)).collect();
        'outer: for i in 0..per_field.len() {
            for j in i + 1..per_field.len() {
                for (l1, t1) in &per_field[i] {
                    for (l2, t2) in &per_field[j] {
                        if t1 == t2 && l1 != l2 {
                            out.push("field_types_differ_only_in_lifetime");
                            break 'outer;
                        }
                    }
                }
            }
        }
    }
    if s.kind == Kind::Union {
        let raw_hash = s.raw.iter().any(|r| r.contains("Hash"));
        let no_unsafe = s.attr(Tr::Hash).map(|a| !a.has_unsafe() || !matches!(a.params.first(), Some((TParam::Unsafe, _)))).unwrap_or(false);
        if raw_hash || no_unsafe {
            out.push("union_hash_without_leading_unsafe");
        }
    }
    if s.has(Tr::Clone) {
        let below = s.variants.iter().any(|v| v.raw.iter().any(|r| r.contains("Copy")) || v.fields.iter().any(|f| f.raw.iter().any(|r| r.contains("Copy"))));
        if below {
            out.push("copy_attribute_below_type_level_while_clone_is_educed");
        }
    }
    if let Some(h) = HARVEST.get() {
        if s.gens.consts.iter().any(|c| h.contains(&c.name)) {
            out.push("const_parameter_named_like_a_generated_binding");
        }
        if s.gens.types.iter().any(|t| t.name.starts_with("Educe__")) || s.name.starts_with("Educe__") {
            out.push("user_item_named_like_an_internal_helper_type");
        }
    }
    if s.has(Tr::Debug) && s.kind != Kind::Union {
        // a `?Sized` type parameter used as the last field
        if s.gens.types.iter().any(|t| t.bounds.iter().any(|b| b == "?Sized")) {
            out.push("debug_unsized_tail");
        }
    }
    out
}

pub fn failure_matches(sig: &str, msg: &str) -> bool {
    match sig {
        "debug_enum_variant_tuple_style_without_name" => msg.contains("E0061"),
        "ordered_enum_repr_with_parenthesised_item" => msg.contains("expected `,`"),
        "copy_clone_enum_with_clone_method_and_type_parameter" => msg.contains("E0204"),
        "field_types_differ_only_in_lifetime" => msg.contains("E0283") || msg.contains("E0204") || msg.contains("E0308") || msg.contains("lifetime may not live long enough"),
        "debug_unsized_tail" => msg.contains("E0277"),
        "const_parameter_named_like_a_generated_binding" => msg.contains("E0308") || msg.contains("E0158") || msg.contains("E0530") || msg.contains("E0005") || msg.contains("E0423") || msg.contains("E0532"),
        "method_function_named_like_a_generated_binding" => msg.contains("E0618") || msg.contains("E0434"),
        "user_item_named_like_an_internal_helper_type" => msg.contains("does not compile"),
        "union_hash_without_leading_unsafe" => msg.contains("panic"),
        "copy_attribute_below_type_level_while_clone_is_educed" => msg.contains("accepted"),
        _ => false,
    }
}

/// the open finding (if any) for property `prop` that explains failure `msg` of `spec`
pub fn explain<'a>(known: &'a [Known], prop: &str, spec: &TypeSpec, msg: &str) -> Option<&'a Known> {
    let sigs = spec_signatures(spec);
    known
        .iter()
        .find(|k| k.status == "open" && k.property == prop && sigs.contains(&k.signature.as_str()) && failure_matches(&k.signature, msg))
}

/// does an open finding's case predicate match (used to keep such cases in their own batches)?
pub fn pre_matches(known: &[Known], prop: &str, spec: &TypeSpec) -> bool {
    let sigs = spec_signatures(spec);
    known.iter().any(|k| k.status == "open" && k.property == prop && sigs.contains(&k.signature.as_str()))
}
