//! Analysis of an expansion without syn's "full" feature: split into top-level items and parse
//! each impl header (generics, trait path, self type, where-clause).
#![allow(dead_code)]

use proc_macro2::{Delimiter, TokenStream, TokenTree};
use syn::parse::{Parse, ParseStream};

#[derive(Clone, Debug)]
pub struct ImplItem {
    /// full token text of the item
    pub text: String,
    /// `impl<..>` generics as written (normalised token text), without where-clause
    pub generics: String,
    /// trait path text (None for an inherent impl)
    pub trait_path: Option<String>,
    /// last segment of the trait path without arguments, e.g. `Debug`, `Into`
    pub trait_name: Option<String>,
    /// generic arguments of the trait's last segment, e.g. `u8` for `Into<u8>`
    pub trait_args: Option<String>,
    pub self_ty: String,
    pub where_preds: Vec<String>,
    pub body: String,
}

struct Header {
    generics: syn::Generics,
    trait_path: Option<syn::Path>,
    self_ty: syn::Type,
    where_clause: Option<syn::WhereClause>,
}

impl Parse for Header {
    fn parse(input: ParseStream) -> syn::Result<Self> {
        input.parse::<syn::Token![impl]>()?;
        let generics: syn::Generics = input.parse()?;
        // either `Path for Type` or `Type`
        let first: syn::Type = input.parse()?;
        let (trait_path, self_ty) = if input.peek(syn::Token![for]) {
            input.parse::<syn::Token![for]>()?;
            let ty: syn::Type = input.parse()?;
            let p = match first {
                syn::Type::Path(tp) if tp.qself.is_none() => tp.path,
                _ => return Err(input.error("trait is not a path")),
            };
            (Some(p), ty)
        } else {
            (None, first)
        };
        let where_clause: Option<syn::WhereClause> = if input.peek(syn::Token![where]) { Some(input.parse()?) } else { None };
        if !input.is_empty() {
            return Err(input.error("unexpected tokens after impl header"));
        }
        Ok(Header { generics, trait_path, self_ty, where_clause })
    }
}

pub fn norm(ts: impl quote::ToTokens) -> String {
    normalize(&ts.to_token_stream().to_string())
}

/// whitespace-insensitive token text
pub fn normalize(s: &str) -> String {
    s.split_whitespace().collect::<Vec<_>>().join(" ")
}

/// split an expansion into its top-level items (each ends with a top-level brace group)
pub fn split_items(ts: TokenStream) -> Result<Vec<ImplItem>, String> {
    let mut items = Vec::new();
    let mut cur: Vec<TokenTree> = Vec::new();
    for tt in ts {
        let is_body = matches!(&tt, TokenTree::Group(g) if g.delimiter() == Delimiter::Brace);
        if is_body {
            let header: TokenStream = cur.drain(..).collect();
            let body = tt.to_string();
            let text = normalize(&format!("{} {}", header, body));
            let h: Header = syn::parse2(header.clone()).map_err(|e| format!("cannot parse impl header `{header}`: {e}"))?;
            let (trait_path, trait_name, trait_args) = match &h.trait_path {
                Some(p) => {
                    let last = p.segments.last().unwrap();
                    let args = match &last.arguments {
                        syn::PathArguments::AngleBracketed(a) => Some(norm(&a.args)),
                        _ => None,
                    };
                    (Some(norm(p)), Some(last.ident.to_string()), args)
                },
                None => (None, None, None),
            };
            let mut g = h.generics.clone();
            g.where_clause = None;
            items.push(ImplItem {
                text,
                generics: norm(&g),
                trait_path,
                trait_name,
                trait_args,
                self_ty: norm(&h.self_ty),
                where_preds: h.where_clause.map(|w| w.predicates.iter().map(norm).collect()).unwrap_or_default(),
                body: normalize(&body),
            });
        } else {
            cur.push(tt);
        }
    }
    if !cur.is_empty() {
        return Err(format!("trailing tokens after the last item: {}", cur.into_iter().collect::<TokenStream>()));
    }
    Ok(items)
}

pub fn split_items_str(s: &str) -> Result<Vec<ImplItem>, String> {
    let ts: TokenStream = s.parse().map_err(|e| format!("expansion is not a token stream: {e}"))?;
    split_items(ts)
}

/// which educe trait an item belongs to (`new()` belongs to Default)
pub fn owner(it: &ImplItem) -> String {
    match &it.trait_name {
        Some(n) => n.clone(),
        None => "Default".to_string(),
    }
}

/// canonical predicate text: strips `::core::x::` / `std::x::` style prefixes so that only the
/// meaning of a predicate is compared, not the way the path is spelled
pub fn canon_pred(p: &str) -> String {
    let mut s: String = p.chars().filter(|c| !c.is_whitespace()).collect();
    for root in ["::core::", "core::", "::std::", "std::"] {
        for m in ["fmt::", "clone::", "marker::", "cmp::", "hash::", "default::", "convert::", "ops::"] {
            s = s.replace(&format!("{root}{m}"), "");
        }
    }
    s
}
