
use std::time::Instant;

use vcore::{check, props};

fn usage() -> ! {
    eprintln!("usage: vcheck <C01..C20> [--tier quick|thorough] [--replay <file>] | vcheck dump <cfg> <n>");
    std::process::exit(2);
}

fn main() {
    let args: Vec<String> = std::env::args().skip(1).collect();
    if args.is_empty() {
        usage();
    }
    let mut tier = std::env::var("VERIF_TIER").unwrap_or_else(|_| "quick".to_string());
    let mut replay = None;
    let mut i = 1;
    while i < args.len() {
        match args[i].as_str() {
            "--tier" => {
                tier = args.get(i + 1).cloned().unwrap_or_else(|| usage());
                i += 2;
            },
            "--replay" => {
                replay = Some(std::path::PathBuf::from(args.get(i + 1).cloned().unwrap_or_else(|| usage())));
                i += 2;
            },
            _ => i += 1,
        }
    }
    let seed: u64 = std::env::var("VERIF_SEED").ok().and_then(|s| s.parse::<i128>().ok()).map(|v| v as u64).unwrap_or(0);
    let ctx = check::Ctx { prop: args[0].clone(), tier, seed, replay, start: Instant::now() };
    let code = props::dispatch(&ctx, &args);
    std::process::exit(code);
}
