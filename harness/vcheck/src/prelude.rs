// Runtime prelude included verbatim at the top of every generated batch program (Engine R).
// These are the "user-written parts": field types with small value domains, instrumented types,
// asymmetric / marked custom methods, a recording Hasher, and a compile-time trait probe.
// Nothing in here mentions educe.
#[allow(dead_code, unused_imports, unused_macros, non_camel_case_types, non_snake_case, non_upper_case_globals)]
pub mod prelude {
    pub use ::core::marker::PhantomData;
    use ::std::cell::Cell;
    use ::std::cmp::Ordering;
    use ::std::fmt;
    use ::std::hash::{Hash, Hasher};

    // ---------------------------------------------------------------- Key: value -> small integer code
    pub trait Key {
        fn key(&self) -> i64;
    }
    macro_rules! key_int { ($($t:ty),*) => { $( impl Key for $t { fn key(&self) -> i64 { *self as i64 } } )* } }
    key_int!(u8, i8, u16, i16, u32, i32, u64, i64, usize, isize, u128, i128);
    impl Key for bool { fn key(&self) -> i64 { *self as i64 } }
    impl Key for char { fn key(&self) -> i64 { *self as i64 } }
    impl Key for f32 { fn key(&self) -> i64 { if self.is_nan() { -7777 } else { (*self * 4.0) as i64 } } }
    impl Key for f64 { fn key(&self) -> i64 { if self.is_nan() { -7777 } else { (*self * 4.0) as i64 } } }
    impl Key for str { fn key(&self) -> i64 { self.bytes().fold(self.len() as i64, |a, b| a * 31 + b as i64) } }
    impl Key for String { fn key(&self) -> i64 { self.as_str().key() } }
    impl Key for () { fn key(&self) -> i64 { 0 } }
    impl<T: Key + ?Sized> Key for &T { fn key(&self) -> i64 { (**self).key() } }
    impl<T: Key + ?Sized> Key for &mut T { fn key(&self) -> i64 { (**self).key() } }
    impl<T: Key + ?Sized> Key for Box<T> { fn key(&self) -> i64 { (**self).key() } }
    impl<T> Key for *const T { fn key(&self) -> i64 { *self as usize as i64 } }
    impl<T: Key> Key for Option<T> { fn key(&self) -> i64 { match self { None => -1, Some(v) => 1 + v.key() * 2 } } }
    impl<T: Key> Key for Vec<T> { fn key(&self) -> i64 { self.iter().fold(self.len() as i64, |a, b| a * 31 + b.key()) } }
    impl<T: Key> Key for [T] { fn key(&self) -> i64 { self.iter().fold(self.len() as i64, |a, b| a * 31 + b.key()) } }
    impl<T: Key, const N: usize> Key for [T; N] { fn key(&self) -> i64 { self.iter().fold(N as i64, |a, b| a * 31 + b.key()) } }
    impl<T: Key, U: Key> Key for (T, U) { fn key(&self) -> i64 { self.0.key() * 1009 + self.1.key() } }
    impl<T: ?Sized> Key for PhantomData<T> { fn key(&self) -> i64 { 0 } }
    impl Key for ::core::num::NonZeroU8 { fn key(&self) -> i64 { self.get() as i64 } }

    // ---------------------------------------------------------------- Inc: NaN-like incomparability without floats
    // A value with v % 4 == 3 is incomparable with everything, itself included (like NaN).
    #[derive(Debug, Clone, Copy, PartialEq, Eq, Hash, Default)]
    pub struct Inc(pub u8);
    impl PartialOrd for Inc {
        fn partial_cmp(&self, o: &Self) -> Option<Ordering> {
            if self.0 % 4 == 3 || o.0 % 4 == 3 { None }
            else if self.0 == o.0 { Some(Ordering::Equal) }
            else { self.0.partial_cmp(&o.0) }
        }
    }
    impl Key for Inc { fn key(&self) -> i64 { self.0 as i64 } }

    // ---------------------------------------------------------------- Skew: a PartialOrd that disagrees with its Ord
    // Ord is the order of the number, PartialOrd the reverse: a generated `partial_cmp` that asks the field's PartialOrd where
    // the documentation says `Some(cmp)` (or the other way round) gives a visibly different answer.
    #[derive(Debug, Clone, Copy, PartialEq, Eq, Hash, Default)]
    pub struct Skew(pub u8);
    impl Ord for Skew { fn cmp(&self, o: &Self) -> Ordering { self.0.cmp(&o.0) } }
    #[allow(clippy::non_canonical_partial_ord_impl)]
    impl PartialOrd for Skew { fn partial_cmp(&self, o: &Self) -> Option<Ordering> { Some(o.0.cmp(&self.0)) } }
    impl Key for Skew { fn key(&self) -> i64 { self.0 as i64 } }

    // a type that takes integer literals through a hand-written `Into` impl only (no `From`): "converted with Into" means Into
    #[derive(Debug, Clone, Copy, PartialEq, Eq, PartialOrd, Ord, Hash, Default)]
    pub struct IntoOnly(pub i64);
    #[allow(clippy::from_over_into)]
    impl Into<IntoOnly> for i32 { fn into(self) -> IntoOnly { IntoOnly(self as i64 + 1000) } }
    impl Key for IntoOnly { fn key(&self) -> i64 { self.0 } }

    // ---------------------------------------------------------------- Decoy: inherent methods named like the trait methods
    // The std traits are derived and behave normally. The inherent methods of the same names give observably wrong
    // answers: generated code that reaches a field through method-call syntax (`field.clone()`, `field.into()`,
    // `Ty::default()`) instead of the fully qualified trait function gets these.
    #[derive(Debug, Clone, Copy, PartialEq, Eq, PartialOrd, Ord, Hash, Default)]
    pub struct Decoy(pub u8);
    #[allow(clippy::should_implement_trait)]
    impl Decoy {
        pub fn clone(&self) -> Decoy { Decoy(self.0.wrapping_add(50)) }
        pub fn clone_from(&mut self, _source: &Decoy) {}
        pub fn eq(&self, _o: &Decoy) -> bool { true }
        pub fn ne(&self, _o: &Decoy) -> bool { true }
        pub fn cmp(&self, _o: &Decoy) -> Ordering { Ordering::Equal }
        pub fn partial_cmp(&self, _o: &Decoy) -> Option<Ordering> { None }
        pub fn hash<H: Hasher>(&self, state: &mut H) { state.write_u8(0xEE) }
        pub fn fmt(&self, f: &mut fmt::Formatter<'_>) -> fmt::Result { f.write_str("DECOY") }
        pub fn default() -> Decoy { Decoy(77) }
        pub fn into(self) -> u16 { 999 }
    }
    impl Key for Decoy { fn key(&self) -> i64 { self.0 as i64 } }
    impl From<Decoy> for u16 { fn from(v: Decoy) -> u16 { v.0 as u16 } }
    impl From<Decoy> for u32 { fn from(v: Decoy) -> u32 { v.0 as u32 } }
    impl From<Decoy> for u64 { fn from(v: Decoy) -> u64 { v.0 as u64 } }
    impl From<Decoy> for i64 { fn from(v: Decoy) -> i64 { v.0 as i64 } }

    // a small fieldless enum used as a niche-carrying payload
    #[derive(Debug, Clone, Copy, PartialEq, Eq, PartialOrd, Ord, Hash, Default)]
    pub enum Inner { #[default] A, B, C }
    impl Key for Inner { fn key(&self) -> i64 { *self as i64 } }

    // ---------------------------------------------------------------- Tracked: provenance of clones
    thread_local! {
        pub static CLONES: Cell<u64> = Cell::new(0);
        pub static CLONE_FROMS: Cell<u64> = Cell::new(0);
        pub static WEIRD_CLONES: Cell<u64> = Cell::new(0);
    }
    pub fn clones() -> u64 { CLONES.with(|c| c.get()) }
    pub fn clone_froms() -> u64 { CLONE_FROMS.with(|c| c.get()) }
    pub fn weird_clones() -> u64 { WEIRD_CLONES.with(|c| c.get()) }

    #[derive(Debug, PartialEq, Eq, PartialOrd, Ord, Hash, Default)]
    pub struct Tracked { pub id: u32, pub gen: u32, pub via: u8 }
    pub fn tr(id: u32) -> Tracked { Tracked { id, gen: 0, via: 0 } }
    impl Clone for Tracked {
        fn clone(&self) -> Self {
            CLONES.with(|c| c.set(c.get() + 1));
            Tracked { id: self.id, gen: self.gen + 1, via: 1 }
        }
        fn clone_from(&mut self, s: &Self) {
            CLONE_FROMS.with(|c| c.set(c.get() + 1));
            self.id = s.id;
            self.gen = s.gen + 1;
            self.via = 2;
        }
    }
    impl Key for Tracked { fn key(&self) -> i64 { self.id as i64 } }
    /// custom clone method for Tracked: marks `via = 9`, does not count as a Clone::clone call
    pub fn m_clone_tracked(v: &Tracked) -> Tracked { Tracked { id: v.id, gen: v.gen + 1, via: 9 } }

    // Weird: Copy, but Clone::clone deliberately returns a different value.
    #[derive(Debug, Copy, PartialEq, Eq, PartialOrd, Ord, Hash, Default)]
    pub struct Weird(pub u8);
    impl Clone for Weird {
        fn clone(&self) -> Self {
            WEIRD_CLONES.with(|c| c.set(c.get() + 1));
            Weird(self.0.wrapping_add(100))
        }
    }
    impl Key for Weird { fn key(&self) -> i64 { self.0 as i64 } }

    // ---------------------------------------------------------------- custom methods (asymmetric or marked)
    pub fn m_eq_le<T: Key + ?Sized>(a: &T, b: &T) -> bool { a.key() <= b.key() }
    pub fn m_eq_mod<T: Key + ?Sized>(a: &T, b: &T) -> bool { a.key().rem_euclid(2) == b.key().rem_euclid(2) }
    pub fn m_pcmp_rev<T: Key + ?Sized>(a: &T, b: &T) -> Option<Ordering> { b.key().partial_cmp(&a.key()) }
    pub fn m_pcmp_none<T: Key + ?Sized>(a: &T, b: &T) -> Option<Ordering> {
        let (x, y) = (a.key(), b.key());
        if x.rem_euclid(4) == 3 || y.rem_euclid(4) == 3 { None } else if x == y { Some(Ordering::Equal) } else if (x - y).rem_euclid(2) == 1 { None } else { x.partial_cmp(&y) }
    }
    pub fn m_cmp_rev<T: Key + ?Sized>(a: &T, b: &T) -> Ordering { b.key().cmp(&a.key()) }
    pub fn m_cmp_mod<T: Key + ?Sized>(a: &T, b: &T) -> Ordering { a.key().rem_euclid(3).cmp(&b.key().rem_euclid(3)) }
    pub fn m_hash_tag<T: Key + ?Sized, H: Hasher>(v: &T, state: &mut H) { state.write_u8(0xA5); state.write_i64(v.key()); }
    pub fn m_hash_mod<T: Key + ?Sized, H: Hasher>(v: &T, state: &mut H) { state.write_u8(0x5A); state.write_i64(v.key().rem_euclid(2)); }
    pub fn m_fmt_tag<T: Key + ?Sized>(v: &T, f: &mut fmt::Formatter<'_>) -> fmt::Result { write!(f, "<{}>", v.key()) }
    pub fn m_fmt_alt<T: Key + ?Sized>(v: &T, f: &mut fmt::Formatter<'_>) -> fmt::Result {
        if f.alternate() { write!(f, "<#{}>", v.key()) } else { write!(f, "<.{}>", v.key()) }
    }
    pub fn m_clone_std<T: Clone>(v: &T) -> T { v.clone() }
    pub fn m_clone_u8(v: &u8) -> u8 { v.wrapping_add(100) }
    pub fn m_clone_string(v: &String) -> String { format!("{}+", v) }
    pub fn m_clone_i16(v: &i16) -> i16 { v.wrapping_add(1000) }
    pub fn m_into_u8<T: Key>(v: T) -> u8 { (v.key() as u8).wrapping_add(50) }
    pub fn m_into_u16<T: Key>(v: T) -> u16 { (v.key() as u16).wrapping_add(500) }
    pub fn m_into_u32<T: Key>(v: T) -> u32 { (v.key() as u32).wrapping_add(5000) }
    pub fn m_into_u64<T: Key>(v: T) -> u64 { (v.key() as u64).wrapping_add(50000) }
    pub fn m_into_i64<T: Key>(v: T) -> i64 { v.key().wrapping_add(700000) }
    pub fn m_into_string<T: Key>(v: T) -> String { format!("m:{}", v.key()) }
    pub fn m_into_str<T: Key>(v: T) -> &'static str { if v.key() % 2 == 0 { "m-even" } else { "m-odd" } }
    pub fn m_into_wrap<T: Key>(v: T) -> Wrap { Wrap(v.key().wrapping_add(9000)) }
    pub fn m_into_none<T, U>(_v: T) -> Option<U> { None }

    // aliases of primitive types: the same type under a name educe cannot recognise
    /// for expressions whose tokens hold a comma outside every bracket: `pick2::<u8, u16>(..)`
    pub fn pick2<A, B>(a: A, _b: B) -> A { a }
    pub type AliasI32 = i32;
    /// a value for a field type without a Default impl, written as a path (array expressions need syn's `full`)
    pub const ARR40: [u8; 40] = [7u8; 40];
    pub type AliasF64 = f64;

    // Into target wrapper with From impls for the integer panel
    #[derive(Debug, Clone, Copy, PartialEq, Eq, PartialOrd, Ord, Hash, Default)]
    pub struct Wrap(pub i64);
    macro_rules! wrap_from { ($($t:ty),*) => { $( impl From<$t> for Wrap { fn from(v: $t) -> Wrap { Wrap(v as i64) } } )* } }
    wrap_from!(u8, i8, u16, i16, u32, i32, i64, bool);
    impl From<char> for Wrap { fn from(v: char) -> Wrap { Wrap(v as i64) } }
    impl From<&'static str> for Wrap { fn from(v: &'static str) -> Wrap { Wrap(v.len() as i64) } }
    impl From<String> for Wrap { fn from(v: String) -> Wrap { Wrap(v.len() as i64 + 100) } }
    impl From<f64> for Wrap { fn from(v: f64) -> Wrap { Wrap((v * 8.0) as i64) } }
    impl From<&'static [u8; 2]> for Wrap { fn from(v: &'static [u8; 2]) -> Wrap { Wrap(v[0] as i64 * 256 + v[1] as i64) } }
    impl Key for Wrap { fn key(&self) -> i64 { self.0 } }

    // ---------------------------------------------------------------- RecHasher
    #[derive(Debug, Clone, PartialEq, Eq, Default)]
    pub struct RecHasher { pub calls: Vec<(&'static str, Vec<u8>)> }
    impl RecHasher { pub fn new() -> Self { RecHasher { calls: Vec::new() } } }
    macro_rules! rec_write { ($($name:ident : $t:ty),*) => { $(
        fn $name(&mut self, i: $t) { self.calls.push((stringify!($name), i.to_ne_bytes().to_vec())); }
    )* } }
    impl Hasher for RecHasher {
        fn finish(&self) -> u64 { 0 }
        fn write(&mut self, bytes: &[u8]) { self.calls.push(("write", bytes.to_vec())); }
        rec_write!(write_u8: u8, write_u16: u16, write_u32: u32, write_u64: u64, write_u128: u128, write_usize: usize,
                   write_i8: i8, write_i16: i16, write_i32: i32, write_i64: i64, write_i128: i128, write_isize: isize);
    }
    pub fn rec<T: Hash + ?Sized>(v: &T) -> Vec<(&'static str, Vec<u8>)> { let mut h = RecHasher::new(); v.hash(&mut h); h.calls }
    pub fn rec_with<F: FnOnce(&mut RecHasher)>(f: F) -> Vec<(&'static str, Vec<u8>)> { let mut h = RecHasher::new(); f(&mut h); h.calls }
    /// a second, different hasher (checks "for every hasher": FNV-like over the same call stream)
    #[derive(Default)]
    pub struct Fnv(pub u64);
    impl Hasher for Fnv {
        fn finish(&self) -> u64 { self.0 }
        fn write(&mut self, bytes: &[u8]) { for b in bytes { self.0 = (self.0 ^ *b as u64).wrapping_mul(0x100000001b3); } self.0 = self.0.rotate_left(5) ^ 0xff; }
    }
    pub fn fnv<T: Hash + ?Sized>(v: &T) -> u64 { let mut h = Fnv(0xcbf29ce484222325); v.hash(&mut h); h.finish() }

    // ---------------------------------------------------------------- marker types for bound probes
    #[derive(Debug, Clone, Copy, PartialEq, Eq, PartialOrd, Ord, Hash, Default)]
    pub struct Yes(pub u8);
    impl Key for Yes { fn key(&self) -> i64 { self.0 as i64 } }
    macro_rules! yes_into { ($($t:ty),*) => { $( impl From<Yes> for $t { fn from(v: Yes) -> $t { v.0 as $t } } )* } }
    yes_into!(u8, u16, u32, u64, i64);
    impl From<Yes> for String { fn from(v: Yes) -> String { format!("yes{}", v.0) } }
    impl From<Yes> for Wrap { fn from(v: Yes) -> Wrap { Wrap(v.0 as i64) } }
    impl From<Yes> for &'static str { fn from(v: Yes) -> &'static str { if v.0 % 2 == 0 { "yes-even" } else { "yes-odd" } } }

    #[derive(Clone, Copy, PartialEq, Eq, PartialOrd, Ord, Hash, Default)] pub struct NoDebug(pub u8);
    #[derive(Debug, PartialEq, Eq, PartialOrd, Ord, Hash, Default)] pub struct NoClone(pub u8);
    #[derive(Debug, Clone, PartialEq, Eq, PartialOrd, Ord, Hash, Default)] pub struct NoCopy(pub u8);
    #[derive(Debug, Clone, Copy, Hash, Default)] pub struct NoPartialEq(pub u8);
    #[derive(Debug, Clone, Copy, PartialEq, Hash, Default)] pub struct NoEq(pub u8);
    #[derive(Debug, Clone, Copy, PartialEq, Eq, Hash, Default)] pub struct NoPartialOrd(pub u8);
    #[derive(Debug, Clone, Copy, PartialEq, Eq, PartialOrd, Hash, Default)] pub struct NoOrd(pub u8);
    #[derive(Debug, Clone, Copy, PartialEq, Eq, PartialOrd, Ord, Default)] pub struct NoHash(pub u8);
    #[derive(Debug, Clone, Copy, PartialEq, Eq, PartialOrd, Ord, Hash)] pub struct NoDefault(pub u8);
    #[derive(Debug, Clone, Copy, PartialEq, Eq, PartialOrd, Ord, Hash, Default)] pub struct NoInto(pub u8);
    macro_rules! key_u8 { ($($t:ident),*) => { $( impl Key for $t { fn key(&self) -> i64 { self.0 as i64 } } )* } }
    key_u8!(NoDebug, NoClone, NoCopy, NoPartialEq, NoEq, NoPartialOrd, NoOrd, NoHash, NoDefault, NoInto);

    /// generic wrapper with std derives (conditional impls), used as a type constructor in bound probes
    #[derive(Debug, Clone, Copy, PartialEq, Eq, PartialOrd, Ord, Hash, Default)]
    pub struct Wrapper<T>(pub T);
    impl<T: Key> Key for Wrapper<T> { fn key(&self) -> i64 { self.0.key() } }

    /// Generic wrappers that are *named like the generated types* (`other::Ty<T>` inside `struct Ty<T>`): a field type
    /// may spell the deriving type's own identifier without being that type.
    /// a different type whose last path segment is the name of an Into target: `alt::Wrap` is not `Wrap`, it converts
    /// into it (and the conversion is observable: +500)
    pub mod alt {
        #[derive(Debug, Clone, Copy, PartialEq, Eq, PartialOrd, Ord, Hash, Default)]
        pub struct Wrap(pub i64);
        impl super::Key for Wrap { fn key(&self) -> i64 { self.0 } }
        impl From<Wrap> for super::Wrap { fn from(v: Wrap) -> super::Wrap { super::Wrap(v.0 + 500) } }
    }

    pub mod homonyms {
        use super::Key;
        macro_rules! homonym { ($($n:ident),*) => { $(
            #[derive(Debug, Clone, Copy, PartialEq, Eq, PartialOrd, Ord, Hash, Default)]
            pub struct $n<T>(pub T);
            impl<T: Key> Key for $n<T> { fn key(&self) -> i64 { self.0.key() } }
        )* } }
        homonym!(Ty, Alpha, Node, Item9);
    }

    // ---------------------------------------------------------------- impls!(Type: Bound) -> bool, never a compile error
    #[macro_export]
    macro_rules! impls {
        ($t:ty : $($b:tt)+) => {{
            struct Probe<P: ?Sized>(::core::marker::PhantomData<P>);
            #[allow(dead_code)] trait Fallback { const YES: bool = false; }
            impl<P: ?Sized> Fallback for Probe<P> {}
            #[allow(dead_code)]
            impl<P: ?Sized + $($b)+> Probe<P> { const YES: bool = true; }
            <Probe<$t>>::YES
        }};
    }
    pub use crate::impls;

    // ---------------------------------------------------------------- reporting
    pub struct Out { pub ty: usize, pub checks: u64, pub fails: u64, pub tallies: Vec<(&'static str, u64)> }
    impl Out {
        pub fn new(ty: usize) -> Out { Out { ty, checks: 0, fails: 0, tallies: Vec::new() } }
        pub fn check(&mut self, ok: bool, what: impl FnOnce() -> String) {
            self.checks += 1;
            if !ok {
                self.fails += 1;
                if self.fails <= 5 {
                    let msg = what().replace('\n', "\\n");
                    println!("F {} {}", self.ty, msg);
                }
            }
        }
        pub fn tally(&mut self, k: &'static str, n: u64) {
            for e in self.tallies.iter_mut() { if e.0 == k { e.1 += n; return; } }
            self.tallies.push((k, n));
        }
        pub fn finish(self) {
            let t: Vec<String> = self.tallies.iter().map(|(k, n)| format!("{}={}", k, n)).collect();
            println!("T {} checks={} fails={} {}", self.ty, self.checks, self.fails, t.join(" "));
        }
    }
    pub fn bytes_of<T>(v: &T) -> Vec<u8> {
        let n = ::core::mem::size_of::<T>();
        unsafe { ::core::slice::from_raw_parts(v as *const T as *const u8, n) }.to_vec()
    }
}
