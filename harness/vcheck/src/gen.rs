//! Builders that turn a choice stream into a valid (documented, well-typed) derive request.
//! Construction, not rejection: every decision is conditioned on the ones made before it so the
//! result is always something the documentation allows.
#![allow(dead_code)]

use crate::dna::Dna;
use crate::spec::*;
use crate::types::*;

#[derive(Clone, Debug)]
pub struct GenCfg {
    pub kinds: Vec<Kind>,
    /// traits that may be educed; `must` are always educed
    pub pool: Vec<Tr>,
    pub must: Vec<Tr>,
    /// probability (percent) that a pool trait is included
    pub trait_pct: u32,
    pub max_variants: usize,
    pub max_fields: usize,
    pub min_variants: usize,
    pub min_fields: usize,
    pub min_type_params: usize,
    /// percent chance of a const parameter (when `consts` is on)
    pub const_pct: u32,
    /// only field types and expressions that mention no std item by its prelude name (C19 shadowing)
    pub plain_types_only: bool,
    pub generics: bool,
    pub lifetimes: bool,
    pub consts: bool,
    pub where_clause: bool,
    pub reprs: bool,
    pub discriminants: bool,
    pub raw_idents: bool,
    /// allow field types that lack capabilities / wrappers / partial types
    pub rich_types: bool,
    pub partial_types: bool,
    pub wrappers: bool,
    /// attribute classes
    pub dbg_names: bool,
    pub ignore: bool,
    pub method: bool,
    pub rank: bool,
    pub bounds: bool,
    pub default_exprs: bool,
    pub type_expr: bool,
    /// big unit-variant-count classes (C04)
    pub big_enums: bool,
    /// extra field types appended to the candidate list (C07: Tracked, Weird)
    pub extra_types: Vec<FTy>,
    /// identifier pools; `None` = neutral defaults
    pub field_names: Option<Vec<String>>,
    pub variant_names: Option<Vec<String>>,
    pub type_names: Option<Vec<String>>,
    pub typaram_names: Option<Vec<String>>,
    pub lifetime_names: Option<Vec<String>>,
    pub const_names: Option<Vec<String>>,
    /// percent chances
    pub attr_pct: u32,
    /// leave out `?Sized` (a separately counted class)
    pub unsized_tail: bool,
    /// C01 refinement: generic Copy+Clone enum with method (known finding F6) excluded when false
    pub allow_copy_clone_method_generic: bool,
    /// inert attributes and doc comments around the educe attributes; discriminant literal spellings
    pub noise: bool,
    /// trivially true extra where-predicates / outlives bounds, const parameters of other types than usize
    pub extra_generics: bool,
    /// percent chances of a `#[repr]` attribute and of explicit discriminants (where `reprs` / `discriminants` are on)
    pub repr_pct: u32,
    pub disc_pct: u32,
    /// an Into target that mentions a type parameter (`Into(Option<T>)`)
    pub generic_into: bool,
    /// percent chance that the definition is produced through a `macro_rules!` invocation
    pub macro_pct: u32,
    /// percent chance (per definition) that primitive field types are spelled `::core::primitive::T` here and there: the
    /// same type under tokens that no table of primitive names recognises
    pub respell_pct: u32,
    /// percent chance that one struct / variant is widened to 13..25 fields (beyond tuple impls and other arity-12 limits)
    pub wide_pct: u32,
}

impl GenCfg {
    pub fn full() -> GenCfg {
        GenCfg {
            kinds: vec![Kind::Struct, Kind::Enum, Kind::Union],
            pool: ALL_TRAITS.to_vec(),
            must: vec![],
            trait_pct: 35,
            max_variants: 5,
            max_fields: 5,
            min_variants: 0,
            min_fields: 0,
            min_type_params: 0,
            const_pct: 15,
            plain_types_only: false,
            generics: true,
            lifetimes: true,
            consts: true,
            where_clause: true,
            reprs: true,
            discriminants: true,
            raw_idents: true,
            rich_types: true,
            partial_types: true,
            wrappers: true,
            dbg_names: true,
            ignore: true,
            method: true,
            rank: true,
            bounds: true,
            default_exprs: true,
            type_expr: true,
            big_enums: false,
            extra_types: vec![],
            field_names: None,
            variant_names: None,
            type_names: None,
            typaram_names: None,
            lifetime_names: None,
            const_names: None,
            attr_pct: 35,
            unsized_tail: false,
            allow_copy_clone_method_generic: true,
            noise: true,
            extra_generics: true,
            repr_pct: 30,
            disc_pct: 30,
            generic_into: true,
            macro_pct: 8,
            respell_pct: 0,
            wide_pct: 0,
        }
    }
    /// concrete (non-generic) types with plain attributes: the base for behavioural checks
    pub fn behaviour(must: &[Tr], pool: &[Tr]) -> GenCfg {
        let mut c = GenCfg::full();
        c.kinds = vec![Kind::Struct, Kind::Enum];
        c.must = must.to_vec();
        c.pool = pool.to_vec();
        c.trait_pct = 30;
        // layout attributes and explicit discriminants are part of the type definition, not of any educe request: every
        // behavioural property must hold with them (C04 and C20 stress them specifically)
        c.reprs = true;
        c.discriminants = true;
        c.raw_idents = false;
        c.bounds = false;
        c.type_expr = false;
        c.where_clause = false;
        c.respell_pct = 6;
        c.wide_pct = 3;
        c
    }
}

pub struct Built {
    pub spec: TypeSpec,
    pub classes: Vec<&'static str>,
}

const FIELD_NAMES: [&str; 8] = ["a", "b", "c", "d", "e", "x1", "value", "inner"];
const RAW_FIELD_NAMES: [&str; 3] = ["r#type", "r#fn", "r#match"];
const VARIANT_NAMES: [&str; 8] = ["V0", "V1", "V2", "V3", "V4", "V5", "V6", "V7"];
const TYPE_NAMES: [&str; 4] = ["Ty", "Alpha", "Node", "Item9"];
const TYPARAM_NAMES: [&str; 4] = ["T", "U", "W", "P1"];

fn pool_or<'a>(p: &'a Option<Vec<String>>, d: &'a [&'a str]) -> Vec<String> {
    match p {
        Some(v) if !v.is_empty() => v.clone(),
        _ => d.iter().map(|s| s.to_string()).collect(),
    }
}

fn delegating_cap(tr: Tr, with_copy: bool, union_: bool) -> u16 {
    use crate::spec::caps::*;
    match tr {
        Tr::Debug => DEBUG,
        Tr::Clone => {
            if with_copy || union_ {
                COPY | CLONE
            } else {
                CLONE
            }
        },
        Tr::Copy => COPY | CLONE,
        Tr::PartialEq => PEQ,
        Tr::Eq => PEQ,
        Tr::PartialOrd => PORD,
        Tr::Ord => ORD,
        Tr::Hash => HASH,
        Tr::Default => DEFAULT,
        _ => 0,
    }
}

pub fn build(d: &mut Dna, cfg: &GenCfg) -> Built {
    let mut classes: Vec<&'static str> = Vec::new();
    // ---------------------------------------------------------------- kind and trait set
    let kind = {
        let w: Vec<u32> = cfg.kinds.iter().map(|k| match k { Kind::Struct => 40, Kind::Enum => 45, Kind::Union => 15 }).collect();
        cfg.kinds[d.weighted(&w)]
    };
    let mut set: Vec<Tr> = Vec::new();
    for t in &cfg.pool {
        let take = cfg.must.contains(t) || d.chance(cfg.trait_pct);
        if take {
            set.push(*t);
        }
    }
    for t in &cfg.must {
        if !set.contains(t) {
            set.push(*t);
        }
    }
    if kind == Kind::Union {
        set.retain(|t| !matches!(t, Tr::PartialOrd | Tr::Ord | Tr::Deref | Tr::DerefMut | Tr::Into));
        if set.contains(&Tr::Clone) && !set.contains(&Tr::Copy) {
            set.push(Tr::Copy);
        }
    }
    if set.contains(&Tr::DerefMut) && !set.contains(&Tr::Deref) {
        set.push(Tr::Deref);
    }
    if set.is_empty() {
        let fallback: Vec<Tr> = cfg
            .pool
            .iter()
            .copied()
            .filter(|t| kind != Kind::Union || !matches!(t, Tr::PartialOrd | Tr::Ord | Tr::Deref | Tr::DerefMut | Tr::Into))
            .filter(|t| *t != Tr::DerefMut && (kind != Kind::Union || *t != Tr::Clone))
            .collect();
        set.push(if fallback.is_empty() { Tr::Debug } else { *d.choose(&fallback) });
    }
    // `?Sized` tail class (C01): a struct whose last field is a type parameter that may be unsized; only for trait sets
    // whose documented code never needs that field by value
    let mut want_unsized = false;
    if cfg.unsized_tail && kind == Kind::Struct && d.chance(6) {
        set.retain(|t| matches!(t, Tr::Debug | Tr::PartialEq | Tr::Eq | Tr::PartialOrd | Tr::Ord | Tr::Hash));
        if set.is_empty() {
            set.push(*d.choose(&[Tr::Debug, Tr::PartialEq, Tr::Hash, Tr::PartialOrd]));
        }
        want_unsized = true;
    }
    // rendered order: canonical, optionally rotated/permuted by the stream
    set.sort();
    set.dedup();
    if d.chance(40) {
        let n = set.len();
        let k = d.pick(n);
        set.rotate_left(k);
        if n > 2 && d.chance(50) {
            set.swap(0, n - 1);
        }
        classes.push("trait_order_permuted");
    }
    let has = |t: Tr| set.contains(&t);
    let with_copy = has(Tr::Copy);
    let ordered = has(Tr::PartialOrd) || has(Tr::Ord);

    // ---------------------------------------------------------------- generics
    let mut gens = Generics::default();
    let base: Vec<FTy> = base_types().into_iter().filter(|b| !(with_copy || kind == Kind::Union) || b.has(caps::COPY)).filter(|b| !cfg.plain_types_only || !b.src.chars().any(|c| c.is_uppercase())).collect();
    let mut lt_names = pool_or(&cfg.lifetime_names, &["a", "b"]);
    let mut ty_names = pool_or(&cfg.typaram_names, &TYPARAM_NAMES);
    let const_names = pool_or(&cfg.const_names, &["N", "M"]);
    if cfg.generics {
        let nt = d.weighted(&[50, 30, 15, 5]).max(cfg.min_type_params);
        for _ in 0..nt {
            if ty_names.is_empty() {
                break;
            }
            let i = d.pick(ty_names.len());
            let name = ty_names.remove(i);
            let inst = base[d.pick(base.len().min(8))].clone();
            gens.types.push(TyParam { name, bounds: vec![], default: None, inst: inst.inst });
        }
        if cfg.lifetimes {
            let nl = d.weighted(&[70, 22, 8]);
            for _ in 0..nl {
                if lt_names.is_empty() {
                    break;
                }
                let i = d.pick(lt_names.len());
                gens.lifetimes.push((lt_names.remove(i), vec![]));
            }
        }
        if cfg.consts && d.chance(cfg.const_pct) {
            let free: Vec<String> = const_names.iter().filter(|n| !gens.types.iter().any(|t| &t.name == *n)).cloned().collect();
            let name = if free.is_empty() { "N".to_string() } else { d.choose(&free).clone() };
            gens.consts.push(ConstParam { name, ty: "usize".into(), default: None, inst: "2".into() });
        }
    }

    let unsized_param = "Zt".to_string();
    if want_unsized {
        gens.types.push(TyParam { name: unsized_param.clone(), bounds: vec!["?Sized".into()], default: None, inst: "u8".into() });
        classes.push("unsized_tail");
    }
    // ---------------------------------------------------------------- names
    let type_name = d.choose(&pool_or(&cfg.type_names, &TYPE_NAMES)).clone();
    let mut fnames = pool_or(&cfg.field_names, &FIELD_NAMES);
    if cfg.raw_idents && cfg.field_names.is_none() {
        fnames.extend(RAW_FIELD_NAMES.iter().map(|s| s.to_string()));
    }
    let mut vnames = pool_or(&cfg.variant_names, &VARIANT_NAMES);
    if cfg.variant_names.is_some() && !vnames.is_empty() {
        // a hostile pool: start anywhere in it, so that every name gets to be a variant name
        let k = d.pick(vnames.len());
        vnames.rotate_left(k);
    }

    // ---------------------------------------------------------------- variants and shapes
    let nvariants = match kind {
        Kind::Struct | Kind::Union => 1,
        Kind::Enum => {
            let w = [8u32, 15, 30, 25, 12, 10];
            let n = d.weighted(&w[..(cfg.max_variants + 1).min(6)]);
            // Deref/DerefMut/Into need at least one variant; Default needs one too
            let n = n.max(cfg.min_variants);
            if n == 0 && (has(Tr::Deref) || has(Tr::DerefMut) || has(Tr::Into) || has(Tr::Default)) {
                1
            } else {
                n
            }
        },
    };
    if kind == Kind::Enum && nvariants == 0 {
        classes.push("enum_empty");
        gens = Generics::default();
    }
    if kind == Kind::Enum && nvariants == 1 {
        classes.push("enum_single_variant");
    }
    let needs_field = has(Tr::Deref) || has(Tr::DerefMut) || has(Tr::Into);

    // Into targets
    let mut into_targets: Vec<String> = Vec::new();
    if has(Tr::Into) {
        let n = 1 + d.weighted(&[50, 30, 15, 5]);
        let mut pool: Vec<&str> = INTO_TARGETS.to_vec();
        for _ in 0..n {
            let i = d.pick(pool.len());
            into_targets.push(pool.remove(i).to_string());
        }
        if into_targets.len() >= 2 {
            classes.push("into_multi_target");
        }
    }
    // a target written in terms of a type parameter: `Into(Option<T>)`; always the last target
    let mut generic_target: Option<(String, String)> = None;
    if has(Tr::Into) && cfg.generic_into && !gens.types.is_empty() && !want_unsized && d.chance(25) {
        let p = gens.types[0].name.clone();
        let t = format!("Option<{p}>");
        into_targets.push(t.clone());
        generic_target = Some((t, p));
        classes.push("into_generic_target");
    }
    let type_level_default_expr =
        has(Tr::Default) && cfg.type_expr && gens.types.is_empty() && gens.consts.is_empty() && kind != Kind::Union && d.chance(12);
    // a type-level expression must be parseable by syn without its "full" feature (what the shipping
    // build has), so only field types whose value expressions are that simple are used with it
    let base: Vec<FTy> = if type_level_default_expr {
        base.into_iter().filter(|b| b.vals.iter().all(|v| syn::parse_str::<syn::Expr>(v).is_ok())).collect()
    } else {
        base
    };

    // Deref target type (all variants must agree): a base type
    let deref_ty: Option<FTy> = if has(Tr::Deref) {
        let c: Vec<&FTy> = base.iter().filter(|b| !(has(Tr::DerefMut) && b.refs > 0)).take(8).collect();
        Some((*d.choose(&c)).clone())
    } else {
        None
    };

    let mut variants: Vec<VariantSpec> = Vec::new();
    // which variant is the default one
    let default_variant = if has(Tr::Default) && nvariants > 0 { d.pick(nvariants) } else { 0 };
    if has(Tr::Default) && default_variant > 0 {
        classes.push("default_marker_not_first");
    }
    let mut used_lt: Vec<String> = Vec::new();
    let mut used_ty: Vec<String> = Vec::new();
    let mut used_const: Vec<String> = Vec::new();

    for vi in 0..nvariants {
        let shape = match kind {
            Kind::Union => Shape::Named,
            _ => {
                let unit_ok = !needs_field && cfg.min_fields == 0 && !want_unsized;
                let w = if unit_ok { [25u32, 37, 38] } else { [0u32, 50, 50] };
                [Shape::Unit, Shape::Named, Shape::Tuple][d.weighted(&w)]
            },
        };
        let mut nfields = match shape {
            Shape::Unit => 0,
            _ => {
                let w = [6u32, 30, 28, 18, 10, 8];
                d.weighted(&w[..(cfg.max_fields + 1).min(6)])
            },
        };
        if (needs_field || kind == Kind::Union || want_unsized) && nfields == 0 {
            nfields = 1;
        }
        if shape != Shape::Unit {
            nfields = nfields.max(cfg.min_fields);
        }
        if kind == Kind::Union {
            nfields = nfields.min(4);
        }
        let vname = if kind == Kind::Enum { vnames[vi % vnames.len()].clone() } else { String::new() };
        let vname = if kind == Kind::Enum && vi >= vnames.len() { format!("{}{}", vname, vi) } else { vname };
        let mut fields: Vec<FieldSpec> = Vec::new();
        let mut avail_names = fnames.clone();

        // per-variant designation choices
        let deref_pos = if nfields > 0 { d.pick(nfields) } else { 0 };
        let deref_mut_pos = if nfields > 0 && d.chance(30) { d.pick(nfields) } else { deref_pos };
        // Into: per target pick a field position and a mode
        let into_pos: Vec<usize> = into_targets.iter().map(|_| if nfields > 0 { d.pick(nfields) } else { 0 }).collect();
        // how this variant serves the generic target: its field is `Option<P>` (returned as it is), `P` (converted), or a
        // concrete type that converts at the instantiation while another field mentions `P`
        let mut gt_mode = 0usize;
        let mut phantom_pos: Option<usize> = None;
        if generic_target.is_some() {
            gt_mode = d.weighted(&[30, 35, 35]);
            if gt_mode == 2 {
                let free: Vec<usize> = (0..nfields).filter(|k| !into_pos.contains(k) && !(has(Tr::Deref) && (*k == deref_pos || *k == deref_mut_pos))).collect();
                if free.is_empty() {
                    gt_mode = 1;
                } else {
                    phantom_pos = Some(*d.choose(&free));
                }
            }
        }
        let is_default_variant = has(Tr::Default) && vi == default_variant && !type_level_default_expr;
        let union_default_pos = if kind == Kind::Union && nfields > 0 { d.pick(nfields) } else { 0 };

        for fi in 0..nfields {
            let name = if shape == Shape::Named {
                let i = d.pick(avail_names.len());
                Some(avail_names.remove(i))
            } else {
                None
            };
            let mut attrs: Vec<FAttr> = Vec::new();
            let mut need: u16 = 0;
            let mut want_key = false;
            let mut forced_ty: Option<FTy> = None;
            let mut default_expect: Option<String> = None;
            let mut default_slot = false;
            let mut deref_unwrapped: Option<FTy> = None;
            let mut ignore_with_method = false;
            let union_ = kind == Kind::Union;

            if want_unsized && fi + 1 == nfields {
                forced_ty = Some(param_ty(&unsized_param, &base[0]));
            }
            // ---- Deref / DerefMut / Into designation decides the type
            if has(Tr::Deref) && (fi == deref_pos || fi == deref_mut_pos) {
                let mut t = deref_ty.clone().unwrap();
                if fi == deref_pos && fi == deref_mut_pos && d.chance(25) {
                    // a reference field borrows for one of the type's lifetimes, or for 'static in a type without any
                    let lt = gens.lifetimes.first().map(|l| l.0.clone()).unwrap_or_else(|| "static".to_string());
                    // `&T`, `&&T` and `&mut T` fields are looked through; DerefMut needs the mutable one
                    let k = if has(Tr::DerefMut) { Wrapk::RefMut } else { [Wrapk::Ref, Wrapk::Ref, Wrapk::RefRef, Wrapk::RefMut][d.pick(4)] };
                    if let Some(r) = wrap(k, &t, Some(&lt)) {
                        deref_unwrapped = Some(t.clone());
                        t = r;
                        classes.push("deref_reference_field");
                    }
                }
                forced_ty = Some(t);
            }
            if let (Some((_, p)), true) = (&generic_target, forced_ty.is_none() && Some(fi) == phantom_pos) {
                if let Some(b) = base.iter().find(|b| b.inst == gens.types[0].inst) {
                    forced_ty = wrap(Wrapk::Phantom, &param_ty(p, b), None);
                }
            }
            if has(Tr::Into) {
                for (ti, tgt) in into_targets.iter().enumerate() {
                    if into_pos[ti] == fi && forced_ty.is_none() {
                        if let Some((gt, p)) = &generic_target {
                            if gt == tgt {
                                if let Some(b) = base.iter().find(|b| b.inst == gens.types[0].inst) {
                                    let pt = param_ty(p, b);
                                    forced_ty = match gt_mode {
                                        0 => wrap(Wrapk::Option, &pt, None),
                                        1 => Some(pt),
                                        _ => Some(b.clone()),
                                    };
                                }
                                continue;
                            }
                        }
                        // choose a source type for this target: identical, convertible, or anything + method
                        let mode = d.weighted(&[45, 30, 25]);
                        let src_candidates: Vec<&FTy> = base.iter().filter(|b| converts(&b.inst, tgt)).collect();
                        let t = if mode == 1 && !src_candidates.is_empty() {
                            (*d.choose(&src_candidates)).clone()
                        } else if mode == 2 && cfg.method {
                            base[d.pick(base.len().min(5))].clone()
                        } else {
                            match base.iter().find(|b| b.inst == *tgt) {
                                Some(b) => b.clone(),
                                None if tgt == "Wrap" => FTy {
                                    src: tgt.clone(),
                                    inst: tgt.clone(),
                                    vals: vec!["Wrap(1)".into(), "Wrap(2)".into(), "Wrap(-3)".into()],
                                    caps: caps::ALL | caps::CONSTVAL,
                                    params: vec![],
                                    refs: 0,
                                    default_val: None,
                                    clone_methods: vec!["m_clone_std".into()],
                                },
                                // the target type itself is not usable here (e.g. String in a Copy type):
                                // any simple field, converted by a method
                                None => base[d.pick(base.len().min(5))].clone(),
                            }
                        };
                        forced_ty = Some(t);
                    }
                }
            }

            // ---- per-trait field attributes
            for &t in &set {
                let written_under = match t {
                    Tr::PartialEq if has(Tr::Eq) && d.chance(30) => Tr::Eq,
                    Tr::Ord if has(Tr::PartialOrd) && d.chance(30) => Tr::PartialOrd,
                    x => x,
                };
                match t {
                    Tr::Debug if !union_ => {
                        let mut ps: Vec<(FParam, u8)> = Vec::new();
                        if cfg.ignore && d.chance(cfg.attr_pct / 2) {
                            ps.push((FParam::Ignore(true), d.byte()));
                            // `ignore` next to a method: the field stays ignored
                            if cfg.method && d.chance(20) {
                                ps.push((FParam::Method(if d.chance(50) { "m_fmt_tag" } else { "m_fmt_alt" }.into()), d.byte()));
                                want_key = true;
                                ignore_with_method = true;
                            }
                        } else {
                            if cfg.method && d.chance(cfg.attr_pct / 2) {
                                ps.push((FParam::Method(if d.chance(50) { "m_fmt_tag" } else { "m_fmt_alt" }.into()), d.byte()));
                                want_key = true;
                            } else {
                                need |= caps::DEBUG;
                            }
                        }
                        // names are decided after the variant's named_field is known (see below)
                        if !ps.is_empty() {
                            attrs.push(FAttr { tr: Tr::Debug, into_ty: None, params: ps, sp: d.byte() });
                        }
                    },
                    Tr::Debug => need |= 0,
                    Tr::Clone => {
                        let method_ok = cfg.method && !union_ && !(with_copy && kind == Kind::Struct);
                        if method_ok && d.chance(cfg.attr_pct / 2) {
                            // concrete method is chosen once the type is known
                            attrs.push(FAttr { tr: Tr::Clone, into_ty: None, params: vec![(FParam::Method(String::new()), d.byte())], sp: d.byte() });
                            if with_copy {
                                need |= caps::COPY | caps::CLONE;
                            } else {
                                need |= caps::CLONE;
                            }
                        } else {
                            need |= delegating_cap(Tr::Clone, with_copy, union_);
                        }
                    },
                    Tr::Copy => need |= caps::COPY | caps::CLONE,
                    Tr::PartialEq | Tr::Hash if !union_ => {
                        let mut ps: Vec<(FParam, u8)> = Vec::new();
                        if cfg.ignore && d.chance(cfg.attr_pct / 2) {
                            ps.push((FParam::Ignore(true), d.byte()));
                            if cfg.method && d.chance(20) {
                                let m = match (t, d.chance(50)) {
                                    (Tr::PartialEq, false) => "m_eq_le",
                                    (Tr::PartialEq, true) => "m_eq_mod",
                                    (_, false) => "m_hash_tag",
                                    (_, true) => "m_hash_mod",
                                };
                                ps.push((FParam::Method(m.into()), d.byte()));
                                want_key = true;
                                ignore_with_method = true;
                                if d.chance(50) {
                                    ps.reverse();
                                }
                            }
                        } else if cfg.method && d.chance(cfg.attr_pct / 2) {
                            let m = match (t, d.chance(50)) {
                                (Tr::PartialEq, false) => "m_eq_le",
                                (Tr::PartialEq, true) => "m_eq_mod",
                                (_, false) => "m_hash_tag",
                                (_, true) => "m_hash_mod",
                            };
                            ps.push((FParam::Method(m.into()), d.byte()));
                            want_key = true;
                        } else {
                            need |= delegating_cap(t, with_copy, union_);
                            if cfg.ignore && d.chance(4) {
                                ps.push((FParam::Ignore(false), d.byte()));
                            }
                        }
                        if !ps.is_empty() {
                            attrs.push(FAttr { tr: written_under, into_ty: None, params: ps, sp: d.byte() });
                        }
                    },
                    Tr::PartialEq | Tr::Hash => need |= 0,
                    Tr::Eq => {
                        if !has(Tr::PartialEq) {
                            need |= caps::PEQ;
                        }
                    },
                    Tr::PartialOrd if has(Tr::Ord) => {},
                    Tr::PartialOrd | Tr::Ord => {
                        let mut ps: Vec<(FParam, u8)> = Vec::new();
                        if cfg.ignore && d.chance(cfg.attr_pct / 2) {
                            ps.push((FParam::Ignore(true), d.byte()));
                            if cfg.method && d.chance(20) {
                                let m = match (t, d.chance(50)) {
                                    (Tr::PartialOrd, false) => "m_pcmp_rev",
                                    (Tr::PartialOrd, true) => "m_pcmp_none",
                                    (_, false) => "m_cmp_rev",
                                    (_, true) => "m_cmp_mod",
                                };
                                ps.push((FParam::Method(m.into()), d.byte()));
                                want_key = true;
                                ignore_with_method = true;
                            }
                            // a rank on an ignored field is accepted and means nothing
                            if cfg.rank && d.chance(15) {
                                ps.push((FParam::Rank(0), d.byte()));
                            }
                        } else {
                            if cfg.method && d.chance(cfg.attr_pct / 2) {
                                let m = match (t, d.chance(50)) {
                                    (Tr::PartialOrd, false) => "m_pcmp_rev",
                                    (Tr::PartialOrd, true) => "m_pcmp_none",
                                    (_, false) => "m_cmp_rev",
                                    (_, true) => "m_cmp_mod",
                                };
                                ps.push((FParam::Method(m.into()), d.byte()));
                                want_key = true;
                            } else {
                                need |= delegating_cap(t, with_copy, union_);
                            }
                            if cfg.rank && d.chance(cfg.attr_pct) {
                                // ranks are made unique after the loop
                                ps.push((FParam::Rank(0), d.byte()));
                            }
                        }
                        if d.chance(50) {
                            ps.reverse();
                        }
                        if !ps.is_empty() {
                            attrs.push(FAttr { tr: written_under, into_ty: None, params: ps, sp: d.byte() });
                        }
                    },
                    Tr::Default => {
                        default_slot = !type_level_default_expr
                            && match kind {
                                Kind::Struct => true,
                                Kind::Enum => is_default_variant,
                                Kind::Union => fi == union_default_pos,
                            };
                    },
                    Tr::Deref | Tr::DerefMut | Tr::Into => {},
                }
            }

            // ---- Default: an expression dictates the field type, so it is chosen among the
            // types that still satisfy what the other traits need from this field
            if default_slot {
                let mut done = false;
                if cfg.default_exprs && forced_ty.is_none() && d.chance(cfg.attr_pct) {
                    let mut flat: Vec<(&'static str, &'static str, &'static str)> = Vec::new();
                    for (e, tys) in default_exprs() {
                        for (ty, expect) in tys {
                            let c = expr_ty_caps(ty);
                            if cfg.plain_types_only && (e.contains("pick2") || e.chars().any(|c| c.is_uppercase() && c != 'M') || ty.chars().any(|c| c.is_uppercase()) || expect.chars().any(|c| c.is_uppercase())) {
                                continue;
                            }
                            let mut n = need;
                            if union_ {
                                n |= caps::COPY;
                            }
                            if c & n == n && (!want_key || c & caps::KEY != 0) {
                                flat.push((e, ty, expect));
                            }
                        }
                    }
                    if !flat.is_empty() {
                        let (e, ty, expect) = *d.choose(&flat);
                        let vals_src = base.iter().find(|b| b.inst == ty).map(|b| b.vals.clone()).unwrap_or_else(|| vec![expect.to_string()]);
                        forced_ty = Some(FTy {
                            src: ty.to_string(),
                            inst: ty.to_string(),
                            vals: vals_src,
                            caps: expr_ty_caps(ty),
                            params: vec![],
                            refs: if ty.starts_with('&') { 1 } else { 0 },
                            default_val: None,
                            clone_methods: vec!["m_clone_std".into()],
                        });
                        default_expect = Some(expect.to_string());
                        attrs.push(FAttr { tr: Tr::Default, into_ty: None, params: vec![(FParam::Expr(e.to_string()), d.byte())], sp: d.byte() });
                        classes.push("default_field_expression");
                        done = true;
                    }
                }
                if !done {
                    need |= caps::DEFAULT;
                    if union_ && (nfields > 1 || d.chance(30)) {
                        attrs.push(FAttr { tr: Tr::Default, into_ty: None, params: vec![], sp: 0 });
                    }
                }
            }
            if let Some(t) = &forced_ty {
                if t.caps & need != need {
                    // a reference-wrapped Deref field that cannot satisfy the other traits: unwrap it
                    if let Some(b) = deref_unwrapped.take() {
                        forced_ty = Some(b);
                    }
                }
            }

            // ---- type
            let ty = if let Some(t) = forced_ty {
                t
            } else {
                let mut cands: Vec<FTy> = Vec::new();
                let mut all: Vec<FTy> = base.clone();
                if cfg.partial_types && !cfg.plain_types_only {
                    all.extend(partial_types());
                }
                all.extend(cfg.extra_types.iter().cloned());
                for b in all.iter() {
                    if b.caps & need == need && (!want_key || b.has(caps::KEY)) {
                        cands.push(b.clone());
                    }
                }
                // generic parameter uses and wrappers
                let mut gen_cands: Vec<FTy> = Vec::new();
                for p in &gens.types {
                    if want_unsized && p.name == unsized_param {
                        continue;
                    }
                    if let Some(b) = base.iter().find(|b| b.inst == p.inst) {
                        let pt = param_ty(&p.name, b);
                        if pt.caps & need == need {
                            gen_cands.push(pt.clone());
                        }
                        if cfg.wrappers && !cfg.plain_types_only {
                            for w in WRAPS {
                                let lt = gens.lifetimes.first().map(|l| l.0.as_str());
                                if let Some(wt) = wrap(w, &pt, lt) {
                                    if wt.caps & need == need && (!want_key || wt.has(caps::KEY)) {
                                        gen_cands.push(wt);
                                    }
                                }
                            }
                        }
                    }
                }
                // a wrapper from another module that is spelled like the deriving type itself
                if cfg.wrappers && !cfg.plain_types_only && cfg.type_names.is_none() {
                    if let Some(p) = gens.types.first() {
                        if let Some(b) = base.iter().find(|b| b.inst == p.inst) {
                            if let Some(t) = homonym(&type_name, &param_ty(&p.name, b)) {
                                if t.caps & need == need && (!want_key || t.has(caps::KEY)) && !(want_unsized && p.name == unsized_param) {
                                    gen_cands.push(t);
                                }
                            }
                        }
                    }
                }
                // one field over two parameters
                if gens.types.len() >= 2 && !want_unsized {
                    let (p0, p1) = (&gens.types[0], &gens.types[1]);
                    if let (Some(b0), Some(b1)) = (base.iter().find(|b| b.inst == p0.inst), base.iter().find(|b| b.inst == p1.inst)) {
                        let t = tup2(&param_ty(&p0.name, b0), &param_ty(&p1.name, b1));
                        if t.caps & need == need && (!want_key || t.has(caps::KEY)) {
                            gen_cands.push(t);
                        }
                    }
                }
                for (lt, _) in &gens.lifetimes {
                    let t = lt_str(lt);
                    if t.caps & need == need {
                        gen_cands.push(t);
                    }
                    if let Some(t) = wrap(Wrapk::Ref, &base[0], Some(lt)) {
                        if t.caps & need == need {
                            gen_cands.push(t);
                        }
                    }
                }
                for c in &gens.consts {
                    let t = const_arr(&c.name);
                    if t.caps & need == need {
                        gen_cands.push(t);
                    }
                }
                if cfg.wrappers && !cfg.plain_types_only && d.chance(12) {
                    let w = *d.choose(&WRAPS);
                    if let Some(wt) = wrap(w, &base[d.pick(base.len().min(5))], None) {
                        if wt.caps & need == need && (!want_key || wt.has(caps::KEY)) {
                            cands.insert(0, wt);
                        }
                    }
                }
                if type_level_default_expr {
                    cands.retain(|c| c.vals.iter().all(|v| syn::parse_str::<syn::Expr>(v).is_ok()));
                    gen_cands.retain(|c| c.vals.iter().all(|v| syn::parse_str::<syn::Expr>(v).is_ok()));
                }
                if union_ {
                    cands.retain(|c| c.has(caps::COPY));
                    gen_cands.retain(|c| c.has(caps::COPY) && !c.src.contains("Phantom"));
                }
                let decoy = cands.iter().position(|c| c.src == "Decoy");
                if !gen_cands.is_empty() && d.chance(55) {
                    d.choose(&gen_cands).clone()
                } else if decoy.is_some() && d.chance(7) {
                    cands[decoy.unwrap()].clone()
                } else if cands.is_empty() {
                    base[0].clone()
                } else {
                    // weight towards the front (simple types) but reach everything
                    let n = cands.len();
                    let i = if d.chance(60) { d.pick(n.min(4)) } else { d.pick(n) };
                    cands[i].clone()
                }
            };
            for p in &ty.params {
                if let Some(l) = p.strip_prefix('\'') {
                    if !used_lt.contains(&l.to_string()) {
                        used_lt.push(l.to_string());
                    }
                } else if gens.consts.iter().any(|c| &c.name == p) {
                    if !used_const.contains(p) {
                        used_const.push(p.clone());
                    }
                } else if !used_ty.contains(p) {
                    used_ty.push(p.clone());
                }
            }
            // resolve the clone method now that the type is known
            let mut drop_clone_attr = false;
            for a in attrs.iter_mut() {
                if a.tr == Tr::Clone {
                    if ty.clone_methods.is_empty() {
                        drop_clone_attr = true;
                    } else {
                        let m = d.choose(&ty.clone_methods).clone();
                        a.params[0].0 = FParam::Method(m);
                    }
                }
            }
            if drop_clone_attr {
                attrs.retain(|a| a.tr != Tr::Clone);
            }
            // methods based on Key need `P: Key` on generic parameters
            if ignore_with_method {
                classes.push("ignore_together_with_method");
            }
            fields.push(FieldSpec { name, ty, attrs, split: d.byte(), raw: vec![], default_expect, noise: vec![] });
        }

        // ---- unique ranks within the variant
        {
            let mut taken: Vec<i64> = Vec::new();
            let special: [i64; 6] = [0, -1, 1, i64::MAX >> 1, -(1 << 40), 7];
            // the default ranks isize::MIN + position that are really in use: compared fields without an explicit rank
            let has_rank = |f: &FieldSpec| f.attrs.iter().any(|a| a.params.iter().any(|(p, _)| matches!(p, FParam::Rank(_))));
            let in_use: Vec<i64> = fields
                .iter()
                .enumerate()
                .filter(|(_, f)| !has_rank(f) && !f.attrs.iter().any(|a| matches!(a.tr, Tr::Ord | Tr::PartialOrd) && a.ignore()))
                .map(|(i, _)| isize::MIN as i64 + i as i64)
                .collect();
            let nf = fields.len() as i64;
            let mut low_rank = false;
            let mut ignored_rank_collides = false;
            for f in fields.iter_mut() {
                for a in f.attrs.iter_mut() {
                    // the rank of an ignored field takes part in nothing: it may repeat the rank of a compared field
                    let ignored_here = a.ignore();
                    for (p, _) in a.params.iter_mut() {
                        if let FParam::Rank(r) = p {
                            if ignored_here && !taken.is_empty() && d.chance(50) {
                                *r = *d.choose(&taken);
                                ignored_rank_collides = true;
                                continue;
                            }
                            let mut v = if d.chance(40) { *d.choose(&special) } else { d.pick(11) as i64 - 5 };
                            if v == i64::MAX >> 1 {
                                v = isize::MAX as i64;
                            }
                            // an explicit rank inside the range of the default ranks is legal as long as no compared field
                            // still uses that default (its own position, or the position of an ignored / ranked field)
                            if d.chance(12) {
                                v = isize::MIN as i64 + d.pick(nf.max(1) as usize + 1) as i64;
                            }
                            // never collide with another explicit rank nor with a default rank that is in use
                            let mut guard = 0;
                            while taken.contains(&v) || in_use.contains(&v) || (v < isize::MIN as i64 + 64 && v >= isize::MIN as i64 + nf + 1) {
                                v = if v >= (isize::MAX as i64) - 2 || guard > 80 { -100 - guard } else { v + 1 };
                                guard += 1;
                            }
                            if v < isize::MIN as i64 + 64 {
                                low_rank = true;
                            }
                            taken.push(v);
                            *r = v;
                        }
                    }
                }
            }
            if !taken.is_empty() {
                classes.push("rank_explicit");
            }
            if low_rank {
                classes.push("rank_explicit_in_default_range");
            }
            if ignored_rank_collides {
                classes.push("ignored_field_repeats_a_rank");
            }
        }

        // ---- designation markers
        let multi = fields.len() != 1;
        if has(Tr::Deref) && !fields.is_empty() && (multi || d.chance(20)) {
            fields[deref_pos].attrs.push(FAttr { tr: Tr::Deref, into_ty: None, params: vec![], sp: 0 });
        }
        if has(Tr::DerefMut) && !fields.is_empty() && (multi || d.chance(20)) {
            fields[deref_mut_pos].attrs.push(FAttr { tr: Tr::DerefMut, into_ty: None, params: vec![], sp: 0 });
            if deref_mut_pos != deref_pos {
                classes.push("deref_mut_other_field");
            }
        }
        if has(Tr::Into) && !fields.is_empty() {
            for (ti, tgt) in into_targets.iter().enumerate() {
                let fi = into_pos[ti];
                let fty = fields[fi].ty.inst.clone();
                let is_generic = generic_target.as_ref().map(|(g, _)| g == tgt).unwrap_or(false);
                let (needs_method, same_typed, identical) = if is_generic {
                    let p = &generic_target.as_ref().unwrap().1;
                    let fsrc = fields[fi].ty.src.clone();
                    let identical = fsrc == *tgt;
                    // `P: Into<Option<P>>` always holds; a concrete field converts at the instantiation when it is P's
                    let convertible = fsrc == *p || (fields[fi].ty.params.is_empty() && fty == gens.types[0].inst && phantom_pos.is_some());
                    (!(identical || convertible), fields.iter().filter(|f| f.ty.src == *tgt).count(), identical)
                } else {
                    (fty != *tgt && !converts(&fty, tgt), fields.iter().filter(|f| f.ty.inst == *tgt).count(), fty == *tgt)
                };
                let unique_same = identical && same_typed == 1;
                let must_mark = multi && !unique_same;
                let use_method = needs_method || (cfg.method && d.chance(15));
                if must_mark || use_method || d.chance(15) {
                    let mut ps = vec![];
                    if use_method {
                        ps.push((FParam::Method(into_method(tgt).to_string()), d.byte()));
                    }
                    fields[fi].attrs.push(FAttr { tr: Tr::Into, into_ty: Some(tgt.clone()), params: ps, sp: 0 });
                }
                if same_typed >= 2 {
                    classes.push("into_two_same_typed");
                }
            }
        }

        // ---- variant-level attributes (Debug name/named_field, Default marker)
        let mut vattrs: Vec<TAttr> = Vec::new();
        if kind == Kind::Enum {
            if has(Tr::Default) && !type_level_default_expr && vi == default_variant && (nvariants != 1 || d.chance(30)) {
                vattrs.push(TAttr::flag(Tr::Default));
            }
        }
        variants.push(VariantSpec { name: vname, shape, fields, disc: None, attrs: vattrs, split: d.byte(), raw: vec![], noise: vec![], disc_sp: 0 });
    }

    // a generic Into target whose parameter ended up in no field cannot be written (the parameter would be unused)
    if let Some((gt, p)) = &generic_target {
        if !used_ty.contains(p) {
            into_targets.retain(|t| t != gt);
            for v in variants.iter_mut() {
                for f in v.fields.iter_mut() {
                    f.attrs.retain(|a| !(a.tr == Tr::Into && a.into_ty.as_deref() == Some(gt.as_str())));
                }
            }
            classes.retain(|c| *c != "into_generic_target");
        }
    }

    // ---------------------------------------------------------------- Debug naming (type, variant, field)
    let mut tattrs: Vec<TAttr> = Vec::new();
    let enum_name_on;
    {
        // type-level Debug
        let mut ps: Vec<(TParam, u8)> = Vec::new();
        let mut type_name_shown = kind != Kind::Enum;
        if has(Tr::Debug) {
            if kind == Kind::Union {
                ps.push((TParam::Unsafe, 0));
            }
            if cfg.dbg_names && d.chance(cfg.attr_pct) {
                let choice = d.weighted(&[40, 30, 30]);
                let nv = match (kind, choice) {
                    (Kind::Enum, 0) => NameV::True,
                    (_, 0) => NameV::Custom("Renamed".into()),
                    (_, 1) => NameV::False,
                    (Kind::Enum, _) => NameV::Custom("EnumName".into()),
                    (_, _) => NameV::True,
                };
                type_name_shown = !matches!(nv, NameV::False);
                ps.push((TParam::Name(nv), d.byte()));
            }
            if kind == Kind::Enum && nvariants == 0 && !type_name_shown {
                // an empty enum needs a name
                ps.retain(|(p, _)| !matches!(p, TParam::Name(_)));
                ps.push((TParam::Name(NameV::True), d.byte()));
                type_name_shown = true;
            }
            if kind == Kind::Struct && cfg.dbg_names && d.chance(cfg.attr_pct / 2) {
                ps.push((TParam::NamedField(d.chance(50)), d.byte()));
            }
        }
        enum_name_on = type_name_shown;
        if has(Tr::Debug) {
            // variant-level
            if kind == Kind::Enum {
                for v in variants.iter_mut() {
                    let mut vps: Vec<(TParam, u8)> = Vec::new();
                    if cfg.dbg_names && d.chance(cfg.attr_pct) {
                        let nv = match d.weighted(&[50, 35, 15]) {
                            0 => NameV::Custom(format!("{}x", v.name)),
                            1 => NameV::False,
                            _ => NameV::True,
                        };
                        vps.push((TParam::Name(nv), d.byte()));
                    }
                    if v.shape != Shape::Unit && cfg.dbg_names && d.chance(cfg.attr_pct / 2) {
                        vps.push((TParam::NamedField(d.chance(50)), d.byte()));
                    }
                    if d.chance(50) {
                        vps.reverse();
                    }
                    if !vps.is_empty() {
                        v.attrs.push(TAttr { tr: Tr::Debug, into_ty: None, params: vps, sp: d.byte() });
                    }
                }
            }
            // validity: something must be printable; field names only where shown by name
            let struct_named_field = ps.iter().find_map(|(p, _)| if let TParam::NamedField(b) = p { Some(*b) } else { None });
            for v in variants.iter_mut() {
                let vattr_idx = v.attrs.iter().position(|a| a.tr == Tr::Debug);
                let v_name_off = vattr_idx.map(|i| matches!(v.attrs[i].name(), Some(NameV::False))).unwrap_or(false);
                let name_shown = match kind {
                    Kind::Enum => has_enum_name(&ps) || !v_name_off,
                    _ => type_name_shown,
                };
                let shown_fields = v.fields.iter().filter(|f| !f.ignored(Tr::Debug)).count();
                if !name_shown && shown_fields == 0 {
                    // re-enable a name: drop the variant's `name = false` (enum) or the type's (struct)
                    if kind == Kind::Enum {
                        if let Some(i) = vattr_idx {
                            v.attrs[i].params.retain(|(p, _)| !matches!(p, TParam::Name(NameV::False)));
                            if v.attrs[i].params.is_empty() {
                                v.attrs.remove(i);
                            }
                        }
                    } else {
                        ps.retain(|(p, _)| !matches!(p, TParam::Name(NameV::False)));
                    }
                }
                let named_shown = match kind {
                    Kind::Enum => v
                        .attrs
                        .iter()
                        .find(|a| a.tr == Tr::Debug)
                        .and_then(|a| a.named_field())
                        .unwrap_or(v.shape == Shape::Named),
                    Kind::Struct => struct_named_field.unwrap_or(v.shape != Shape::Tuple),
                    Kind::Union => false,
                };
                if named_shown && cfg.dbg_names && kind != Kind::Union {
                    for (fi, f) in v.fields.iter_mut().enumerate() {
                        if f.ignored(Tr::Debug) {
                            continue;
                        }
                        if d.chance(cfg.attr_pct / 2) {
                            // (a raw identifier is a legal name value in every spelling)
                            let nm = if cfg.raw_idents && d.chance(15) { "r#type".to_string() } else { format!("k{fi}") };
                            match f.attrs.iter_mut().find(|a| a.tr == Tr::Debug) {
                                Some(a) => a.params.push((FParam::Name(nm), d.byte())),
                                None => f.attrs.insert(0, FAttr { tr: Tr::Debug, into_ty: None, params: vec![(FParam::Name(nm), d.byte())], sp: d.byte() }),
                            }
                        }
                    }
                }
            }
        }
        let _ = type_name_shown;
        if has(Tr::Debug) {
            if d.chance(50) && kind != Kind::Union {
                ps.reverse();
            }
            tattrs.push(TAttr { tr: Tr::Debug, into_ty: None, params: ps, sp: d.byte() });
        }
    }

    // ---------------------------------------------------------------- drop unused generic parameters; add inline bounds
    gens.lifetimes.retain(|(n, _)| used_lt.contains(n));
    gens.types.retain(|t| used_ty.contains(&t.name));
    let _ = &used_const;
    let mut key_params: Vec<String> = Vec::new();
    for v in &variants {
        for f in &v.fields {
            let uses_key_method = f.attrs.iter().any(|a| a.method().map(|m| m.starts_with("m_") && m != "m_clone_std").unwrap_or(false));
            if uses_key_method {
                for p in &f.ty.params {
                    if gens.types.iter().any(|t| &t.name == p) && !key_params.contains(p) {
                        key_params.push(p.clone());
                    }
                }
            }
            // m_clone_std needs Clone on the parameter
        }
    }
    let mut clone_params: Vec<String> = Vec::new();
    for v in &variants {
        for f in &v.fields {
            if f.attrs.iter().any(|a| a.method() == Some("m_clone_std")) {
                for p in &f.ty.params {
                    if gens.types.iter().any(|t| &t.name == p) && !clone_params.contains(p) {
                        clone_params.push(p.clone());
                    }
                }
            }
        }
    }
    for t in gens.types.iter_mut() {
        let in_where = cfg.where_clause && d.chance(35);
        let mut bs: Vec<String> = Vec::new();
        if key_params.contains(&t.name) {
            bs.push("Key".into());
        }
        if clone_params.contains(&t.name) {
            bs.push(if with_copy { "::core::marker::Copy".into() } else { "::core::clone::Clone".into() });
        }
        if kind == Kind::Union && !bs.iter().any(|b| b.ends_with("Copy")) {
            bs.retain(|b| !b.ends_with("Clone"));
            bs.push("::core::marker::Copy".into());
        }
        let is_unsized = t.bounds.iter().any(|b| b == "?Sized");
        if d.chance(10) && !is_unsized {
            bs.push("::core::marker::Sized".into());
        }
        if !bs.is_empty() {
            if in_where {
                gens.where_preds.push(format!("{}: {}", t.name, bs.join(" + ")));
                classes.push("user_where_clause");
            } else {
                t.bounds.extend(bs);
                classes.push("inline_bounds");
            }
        }
    }
    if gens.lifetimes.len() == 2 && d.chance(30) {
        let a = gens.lifetimes[0].0.clone();
        gens.lifetimes[1].1.push(format!("'{a}"));
        classes.push("lifetime_bound");
    }
    // defaults must be trailing: give them to a suffix of the type/const parameter list
    if !gens.types.is_empty() && gens.consts.is_empty() && !want_unsized && d.chance(15) {
        let last = gens.types.len() - 1;
        gens.types[last].default = Some(gens.types[last].inst.clone());
        classes.push("type_param_default");
    }
    if !gens.consts.is_empty() && d.chance(40) {
        gens.consts[0].default = Some("2".into());
        classes.push("const_param_default");
    }
    if !gens.types.is_empty() {
        classes.push("generic_type_params");
    }
    if !gens.lifetimes.is_empty() {
        classes.push("generic_lifetimes");
    }
    if !gens.consts.is_empty() {
        classes.push("generic_consts");
    }

    // ---------------------------------------------------------------- type-level attributes for the other traits
    let custom_bound = |t: Tr, gens: &Generics, target: Option<&str>| -> Vec<String> {
        gens.types
            .iter()
            .map(|p| {
                let tr = match (t, with_copy) {
                    (Tr::Clone, true) => "::core::marker::Copy".to_string(),
                    (Tr::Into, _) => format!("::core::convert::Into<{}>", target.unwrap_or("u8")),
                    (Tr::Eq, _) => "::core::cmp::PartialEq".to_string(),
                    (x, _) => x.std_path().to_string(),
                };
                format!("{}: {}", p.name, tr)
            })
            .collect()
    };
    for &t in &set {
        match t {
            Tr::Debug => {},
            Tr::Into => {
                for tgt in &into_targets {
                    let mut ps = vec![];
                    let is_generic = generic_target.as_ref().map(|(g, _)| g == tgt).unwrap_or(false);
                    if cfg.bounds && !is_generic && d.chance(cfg.attr_pct / 2) {
                        if let Some(b) = pick_bound(d, &gens, || custom_bound(Tr::Into, &gens, Some(tgt)), false) {
                            ps.push((TParam::Bound(b), d.byte()));
                            classes.push("bound_explicit");
                        }
                    }
                    tattrs.push(TAttr { tr: Tr::Into, into_ty: Some(tgt.clone()), params: ps, sp: d.byte() });
                }
            },
            Tr::Deref | Tr::DerefMut => tattrs.push(TAttr::flag(t)),
            _ => {
                let mut ps: Vec<(TParam, u8)> = Vec::new();
                let bound_allowed = cfg.bounds
                    && kind_allows_bound(kind, t)
                    && !(t == Tr::Copy && has(Tr::Clone))
                    && !(t == Tr::Eq && has(Tr::PartialEq))
                    && !(t == Tr::PartialOrd && has(Tr::Ord));
                if kind == Kind::Union && matches!(t, Tr::PartialEq | Tr::Hash) {
                    ps.push((TParam::Unsafe, 0));
                }
                if bound_allowed && d.chance(cfg.attr_pct / 2) {
                    // `*` with Into-style or supertrait-free traits is always satisfiable here because
                    // every parameter instantiation comes from the fully capable base table
                    if let Some(b) = pick_bound(d, &gens, || custom_bound(t, &gens, None), true) {
                        ps.push((TParam::Bound(b), d.byte()));
                        classes.push("bound_explicit");
                    }
                }
                if t == Tr::Default {
                    if d.chance(cfg.attr_pct / 2) {
                        ps.push((TParam::New(true), d.byte()));
                        classes.push("default_new");
                    }
                    if type_level_default_expr {
                        // rendered after the variants are final (below)
                        ps.push((TParam::Expr(String::new()), d.byte()));
                        classes.push("default_type_expression");
                    }
                    if d.chance(50) {
                        ps.reverse();
                    }
                }
                tattrs.push(TAttr { tr: t, into_ty: None, params: ps, sp: d.byte() });
            },
        }
    }
    // keep the rendered order chosen in `set`
    tattrs.sort_by_key(|a| set.iter().position(|t| *t == a.tr).unwrap_or(0));

    // ---------------------------------------------------------------- repr and discriminants
    let mut repr: Option<String> = None;
    if cfg.reprs && d.chance(cfg.repr_pct) {
        let all_unit = variants.iter().all(|v| v.shape == Shape::Unit);
        let opts: Vec<&str> = match kind {
            Kind::Enum if nvariants == 0 => vec![],
            Kind::Enum => {
                let mut v = vec!["u8", "i8", "u16", "i32", "u64", "isize", "C", "i128", "usize", "u32", "i16", "i64", "u128"];
                v.extend(["align(4)", "align(2)", "C, align(8)", "u128, align(16)", "i16, align(4)", "align(8), u32"]);
                if !all_unit {
                    // `repr(C, u8)` is only legal on enums with fields
                    v.extend(["C, u8", "u8, C"]);
                }
                let _ = ordered;
                v
            },
            Kind::Struct => {
                let mut v = vec!["C", "align(4)", "C, align(16)"];
                if variants[0].fields.len() == 1 {
                    v.push("transparent");
                }
                v
            },
            Kind::Union => vec!["C", "align(8)"],
        };
        if !opts.is_empty() {
            repr = Some(d.choose(&opts).to_string());
            classes.push("repr_attr");
        }
    }
    if kind == Kind::Enum && cfg.discriminants && nvariants > 0 && d.chance(cfg.disc_pct) {
        let all_unit = variants.iter().all(|v| v.shape == Shape::Unit);
        let prim = repr.as_deref().map(|r| r.split(',').any(|p| is_int_ty(p.trim()))).unwrap_or(false);
        if all_unit || prim {
            let (lo, hi) = repr
                .as_deref()
                .and_then(|r| r.split(',').map(|p| p.trim()).find(|p| is_int_ty(p)))
                .map(int_range)
                .unwrap_or((i32::MIN as i128 / 2, i32::MAX as i128 / 2));
            // strictly increasing or explicitly non-monotonic, never colliding
            let mut used: Vec<i128> = Vec::new();
            let mut next: i128 = 0;
            for v in variants.iter_mut() {
                if d.chance(60) {
                    let cand = match d.pick(9) {
                        0 => lo,
                        1 => hi - (variants_len_hint(nvariants) as i128),
                        2 => -1,
                        3 => 100,
                        4 => next + 3,
                        5 => 7,
                        // small values: they coincide with the declaration positions of other variants
                        6 => 1,
                        7 => 2,
                        _ => nvariants as i128 - 1,
                    };
                    let mut c = cand.clamp(lo, hi - 8);
                    while used.contains(&c) || (lo >= 0 && c < 0) {
                        c += 1;
                    }
                    if c < hi {
                        v.disc = Some(c);
                        next = c;
                    }
                }
                while used.contains(&next) {
                    next += 1;
                }
                used.push(next);
                next += 1;
            }
            // validate with the language's own rule (explicit value, else previous + 1)
            let mut ds: Vec<i128> = Vec::new();
            let mut nx: i128 = 0;
            let mut ok = true;
            for v in variants.iter() {
                let dv = v.disc.unwrap_or(nx);
                if ds.contains(&dv) || dv < lo || dv > hi {
                    ok = false;
                }
                ds.push(dv);
                nx = dv + 1;
            }
            if !ok {
                for v in variants.iter_mut() {
                    v.disc = None;
                }
            }
            if variants.iter().any(|v| v.disc.is_some()) {
                classes.push("explicit_discriminants");
                if ds.windows(2).any(|w| w[0] > w[1]) {
                    classes.push("discriminants_non_monotonic");
                }
            }
        }
    }

    // `[u8; N]: Default` holds only through the automatic where-clause, so an explicit mode on Default would leave the
    // user-written part ill-typed
    if has(Tr::Default) && variants.iter().any(|v| v.fields.iter().any(|f| gens.consts.iter().any(|c| f.ty.params.contains(&c.name)))) {
        for a in tattrs.iter_mut() {
            if a.tr == Tr::Default {
                a.params.retain(|(p, _)| !matches!(p, TParam::Bound(_)));
            }
        }
    }
    // const parameters may be declared before the type parameters
    if !gens.consts.is_empty() && !gens.types.is_empty() && d.chance(40) {
        gens.consts_first = true;
        if gens.types.iter().any(|t| t.default.is_none()) {
            for c in gens.consts.iter_mut() {
                c.default = None;
            }
        }
        classes.push("const_params_before_type_params");
    }
    // attribute order on fields and variants is free; custom method paths may be written in several ways
    for v in variants.iter_mut() {
        if v.attrs.len() > 1 && d.chance(30) {
            v.attrs.reverse();
        }
        for f in v.fields.iter_mut() {
            if f.attrs.len() > 1 && d.chance(35) {
                let k = d.pick(f.attrs.len());
                f.attrs.rotate_left(k);
                if d.chance(50) {
                    f.attrs.reverse();
                }
            }
            let concrete = f.ty.params.is_empty() && !f.ty.src.contains('\'');
            for a in f.attrs.iter_mut() {
                for (p, _) in a.params.iter_mut() {
                    if let FParam::Method(m) = p {
                        if m.is_empty() || !m.starts_with("m_") {
                            continue;
                        }
                        let single_param = !m.starts_with("m_hash") && !matches!(m.as_str(), "m_clone_u8" | "m_clone_i16" | "m_clone_string" | "m_clone_tracked" | "m_into_none");
                        match d.weighted(&[70, 15, 15]) {
                            1 => *m = format!("crate::prelude::{m}"),
                            2 if concrete && single_param && !cfg.plain_types_only => *m = format!("{m}::<{}>", f.ty.src),
                            _ => {},
                        }
                    }
                }
            }
        }
    }
    let mut spec = TypeSpec { kind, name: type_name, gens, repr, traits: tattrs, split: d.byte(), variants, raw: vec![], extra_items: vec![], noise: vec![], disc_shift: 0, via_macro: 0, method_alias: vec![], type_expr_expect: None };

    // type-level Default expression: a full constructor of the default variant, all fields value 1
    if type_level_default_expr {
        let vi = default_variant.min(spec.variants.len().saturating_sub(1));
        let ix: Vec<usize> = spec.variants[vi].fields.iter().map(|f| if f.ty.vals.len() > 1 { 1 } else { 0 }).collect();
        let mut e = spec.value_expr(vi, &ix);
        // a bare literal as the type-level expression reaches the type through the user's own `From` impls; a second
        // impl for another literal type produces a different value, so that a re-interpreted literal is observable
        if spec.kind != Kind::Union && d.chance(25) {
            let (lit, lit_ty, other_ty) = *d.choose(&[("\"0\"", "&'static str", "i32"), ("7", "i32", "&'static str"), ("'c'", "char", "i32"), ("true", "bool", "i32"), ("\"1.5\"", "&'static str", "f64")]);
            let ix2: Vec<usize> = spec.variants[vi].fields.iter().map(|f| if f.ty.vals.len() > 2 { 2 } else { 0 }).collect();
            let other = spec.value_expr(vi, &ix2);
            let (ig, st, wc) = (spec.gens.impl_decl(), spec.self_ty(), spec.gens.where_clause());
            spec.extra_items.push(format!("impl{ig} ::core::convert::From<{lit_ty}> for {st}{wc} {{ fn from(_v: {lit_ty}) -> Self {{ {e} }} }}"));
            spec.extra_items.push(format!("impl{ig} ::core::convert::From<{other_ty}> for {st}{wc} {{ fn from(_v: {other_ty}) -> Self {{ {other} }} }}"));
            spec.type_expr_expect = Some(e.clone());
            e = lit.to_string();
            classes.push("default_type_expression_is_a_literal");
        }
        for a in spec.traits.iter_mut() {
            if a.tr == Tr::Default {
                for (p, _) in a.params.iter_mut() {
                    if let TParam::Expr(s) = p {
                        *s = e.clone();
                    }
                }
            }
        }
    }

    // ---------------------------------------------------------------- tail decisions (kept last so that earlier choices keep their stream positions)
    if cfg.noise {
        const TYPE_NOISE: [&str; 7] = ["^/// A documented type.", "#[allow(dead_code)]", "^#[doc = \"text\"]", "#[must_use]", "^#[allow(clippy::all)]", "/** block doc */", "#[non_exhaustive]"];
        const INNER_NOISE: [&str; 7] = ["^/// documented", "#[allow(dead_code)]", "^#[doc = \"x\"]", "/// after the attributes", "^#[cfg(all())]", "#[doc(hidden)]", "^/** block */"];
        let mut any = false;
        if d.chance(25) {
            let n = 1 + d.pick(2);
            for _ in 0..n {
                let c = *d.choose(&TYPE_NOISE);
                if c == "#[non_exhaustive]" && spec.kind == Kind::Union {
                    continue;
                }
                if !spec.noise.iter().any(|x| x == c) {
                    spec.noise.push(c.to_string());
                    any = true;
                }
            }
        }
        let inner_pct = if d.chance(30) { 35 } else { 0 };
        for v in spec.variants.iter_mut() {
            if spec.kind == Kind::Enum && d.chance(inner_pct) {
                let c = if d.chance(15) { "#[non_exhaustive]" } else { *d.choose(&INNER_NOISE) };
                v.noise.push(c.to_string());
                any = true;
            }
            for f in v.fields.iter_mut() {
                if d.chance(inner_pct) {
                    f.noise.push(d.choose(&INNER_NOISE).to_string());
                    if d.chance(30) {
                        let c = *d.choose(&INNER_NOISE);
                        if !f.noise.iter().any(|x| x == c) {
                            f.noise.push(c.to_string());
                        }
                    }
                    any = true;
                }
            }
        }
        if any {
            classes.push("inert_attributes");
        }
        let mut spelled = false;
        for v in spec.variants.iter_mut() {
            if v.disc.is_some() && d.chance(45) {
                v.disc_sp = 1 + d.pick(5) as u8;
                spelled = true;
            }
        }
        if spelled {
            classes.push("discriminant_literal_spelling");
        }
    }
    // the definition may come out of a macro: field types and discriminants are then `$t:ty` / `$d:expr` fragments, which
    // reach the derive wrapped in invisible (None-delimited) groups
    if cfg.macro_pct > 0 && nvariants_nonzero(&spec) && d.chance(cfg.macro_pct) {
        let has_fields = spec.all_fields().next().is_some();
        let has_disc = spec.variants.iter().any(|v| v.disc.is_some());
        let mut m = 0u8;
        if has_fields && d.chance(80) {
            m |= 1;
        }
        if has_disc && d.chance(80) {
            m |= 2;
        }
        if has_fields && spec.all_fields().any(|f| !f.attrs.is_empty()) && d.chance(60) {
            m |= 4;
        }
        if spec.has(Tr::Into) && d.chance(60) {
            m |= 8;
        }
        // (a type-level Default expression spells the field names out in the macro body, where the caller's names are not visible)
        if spec.all_fields().any(|f| f.name.is_some()) && !type_level_default_expr && d.chance(50) {
            m |= 16;
        }
        if m != 0 {
            spec.via_macro = m;
            classes.push("definition_via_macro_rules");
        }
    }
    // raw identifiers as variant names (field names are drawn from the pool above)
    if cfg.raw_idents && cfg.variant_names.is_none() && spec.kind == Kind::Enum && !spec.variants.is_empty() && !type_level_default_expr && d.chance(8) {
        let i = d.pick(spec.variants.len());
        let raw = *d.choose(&["r#loop", "r#enum", "r#move"]);
        if !spec.variants.iter().any(|v| v.name == raw) {
            spec.variants[i].name = raw.to_string();
            classes.push("raw_identifier");
        }
    }
    if cfg.extra_generics && !spec.gens.is_empty() && nvariants_nonzero(&spec) {
        let mut extra: Vec<String> = Vec::new();
        let sized = "::core::marker::Sized";
        if let Some(t) = spec.gens.types.iter().find(|t| !t.bounds.iter().any(|b| b == "?Sized")) {
            let t = t.name.clone();
            if d.chance(12) {
                extra.push(match d.pick(3) {
                    0 => format!("[{t}; 1]: {sized}"),
                    1 => format!("for<'z9> &'z9 {t}: {sized}"),
                    _ => format!("({t}, u8): {sized}"),
                });
            }
            if let Some((l, _)) = spec.gens.lifetimes.first() {
                if d.chance(10) {
                    extra.push(format!("{t}: '{l}"));
                }
            }
        }
        if spec.gens.lifetimes.len() == 2 && spec.gens.lifetimes[1].1.is_empty() && d.chance(20) {
            extra.push(format!("'{}: '{}", spec.gens.lifetimes[1].0, spec.gens.lifetimes[0].0));
        }
        if !extra.is_empty() {
            if d.chance(50) {
                spec.gens.where_preds.extend(extra);
            } else {
                for (i, e) in extra.into_iter().enumerate() {
                    spec.gens.where_preds.insert(i.min(spec.gens.where_preds.len()), e);
                }
            }
            classes.push("extra_where_predicates");
        }
        if cfg.consts && !want_unsized && spec.type_expr_expect.is_none() && d.chance(7) {
            let taken: Vec<String> = spec.gens.types.iter().map(|t| t.name.clone()).chain(spec.gens.consts.iter().map(|c| c.name.clone())).collect();
            let name = const_names.iter().find(|n| !taken.contains(n)).cloned().unwrap_or_else(|| "K9".to_string());
            if !taken.contains(&name) && name != spec.name {
                let (ty, inst) = *d.choose(&[("bool", "true"), ("char", "'x'"), ("u8", "7"), ("i32", "-1"), ("usize", "3")]);
                let need_default = spec.gens.types.iter().any(|t| t.default.is_some()) || spec.gens.consts.iter().any(|c| c.default.is_some());
                let default = if need_default { Some(inst.to_string()) } else { None };
                spec.gens.consts.push(ConstParam { name, ty: ty.into(), default, inst: inst.into() });
                classes.push("const_param_other_type");
            }
        }
    }
    // (tail decisions) a `where` keyword without predicates; other white space inside multi-token Into targets
    if spec.gens.where_preds.is_empty() && d.chance(4) {
        spec.gens.empty_where = true;
        classes.push("empty_where_clause");
    }
    if has(Tr::Into) {
        for a in spec.traits.iter_mut().filter(|a| a.tr == Tr::Into) {
            if d.chance(30) {
                a.sp |= 0x10;
            }
        }
        for v in spec.variants.iter_mut() {
            for f in v.fields.iter_mut() {
                for a in f.attrs.iter_mut().filter(|a| a.tr == Tr::Into) {
                    if d.chance(30) {
                        a.sp |= 0x10;
                    }
                }
            }
        }
    }
    // (tail decision) a wide struct or variant: copies of its plain fields under new names until there are 13, 14, 23 or 25.
    // Not with positional designations (Deref, Into: a sole field would stop being sole) nor with a type-level expression
    let low_ranks = spec.all_fields().any(|f| f.attrs.iter().any(|a| a.rank().map(|r| r < isize::MIN as i64 + 64).unwrap_or(false)));
    let transparent = spec.repr.as_deref().map(|r| r.contains("transparent")).unwrap_or(false);
    if cfg.wide_pct > 0 && spec.kind != Kind::Union && !want_unsized && !transparent && !low_ranks && !has(Tr::Deref) && !has(Tr::Into) && spec.traits.iter().all(|a| a.expr().is_none()) && d.chance(cfg.wide_pct) {
        let cands: Vec<usize> = (0..spec.variants.len()).filter(|i| spec.variants[*i].fields.iter().any(|f| f.default_expect.is_none() && f.ty.params.is_empty())).collect();
        if !cands.is_empty() {
            let vi = *d.choose(&cands);
            let target = [13usize, 14, 23, 25][d.pick(4)];
            let v = &mut spec.variants[vi];
            let protos: Vec<FieldSpec> = v.fields.iter().filter(|f| f.default_expect.is_none() && f.ty.params.is_empty()).cloned().collect();
            let mut k = 0;
            while v.fields.len() < target {
                let mut f = protos[k % protos.len()].clone();
                // keep ignore and method, drop what must be unique within a variant
                for a in f.attrs.iter_mut() {
                    a.params.retain(|(p, _)| matches!(p, FParam::Ignore(_) | FParam::Method(_)));
                }
                f.attrs.retain(|a| !a.params.is_empty());
                f.raw.clear();
                f.name = if v.shape == Shape::Named { Some(format!("w{k}")) } else { None };
                // (appended, so that the positional default ranks of the existing fields stay what they are)
                v.fields.push(f);
                k += 1;
            }
            classes.push("more_than_12_fields");
        }
    }
    // (last tail decision) qualified spellings of primitive field types. Not where educe is documented to look at the
    // spelling: a field with a Default expression (literals are converted unless the type is *written* as the literal's
    // own), and any field of a type with Into targets (the same-type search compares declared types as written)
    if cfg.respell_pct > 0 && !has(Tr::Into) && d.chance(cfg.respell_pct) {
        let mut any = false;
        for v in spec.variants.iter_mut() {
            for f in v.fields.iter_mut() {
                let prim = matches!(f.ty.src.as_str(), "u8" | "i16" | "u64" | "bool" | "char" | "u32" | "i64" | "u16" | "f32" | "f64" | "i128" | "usize");
                let has_expr = f.default_expect.is_some() || f.attrs.iter().any(|a| a.params.iter().any(|(p, _)| matches!(p, FParam::Expr(_))));
                if prim && !has_expr && d.chance(50) {
                    let re = format!("::core::primitive::{}", f.ty.src);
                    f.ty.src = re.clone();
                    f.ty.inst = re;
                    any = true;
                }
            }
        }
        if any {
            classes.push("primitive_field_type_spelled_with_a_path");
        }
    }
    if spec.variants.iter().any(|v| v.fields.iter().any(|f| f.name.as_deref().map(|n| n.starts_with("r#")).unwrap_or(false))) {
        classes.push("raw_identifier");
    }
    if spec.all_fields().any(|f| f.ty.src.contains("prelude::homonyms::")) {
        classes.push("field_type_spelled_like_the_type");
    }
    if spec.all_fields().any(|f| f.ty.src.contains("Decoy")) {
        classes.push("decoy_field(inherent methods named like trait methods)");
    }
    classes.push(match kind {
        Kind::Struct => "kind_struct",
        Kind::Enum => "kind_enum",
        Kind::Union => "kind_union",
    });
    Built { spec, classes }
}

fn nvariants_nonzero(s: &TypeSpec) -> bool {
    !(s.kind == Kind::Enum && s.variants.is_empty())
}

fn variants_len_hint(n: usize) -> usize {
    n + 8
}

fn has_enum_name(ps: &[(TParam, u8)]) -> bool {
    ps.iter().any(|(p, _)| matches!(p, TParam::Name(NameV::True) | TParam::Name(NameV::Custom(_))))
}

fn kind_allows_bound(kind: Kind, t: Tr) -> bool {
    !(kind == Kind::Union && matches!(t, Tr::Debug | Tr::PartialEq | Tr::Hash))
}

pub fn is_int_ty(s: &str) -> bool {
    matches!(s, "u8" | "u16" | "u32" | "u64" | "u128" | "usize" | "i8" | "i16" | "i32" | "i64" | "i128" | "isize")
}

pub fn int_range(s: &str) -> (i128, i128) {
    match s {
        "u8" => (0, u8::MAX as i128),
        "u16" => (0, u16::MAX as i128),
        "u32" => (0, u32::MAX as i128),
        "u64" | "usize" => (0, u64::MAX as i128),
        "u128" => (0, i128::MAX),
        "i8" => (i8::MIN as i128, i8::MAX as i128),
        "i16" => (i16::MIN as i128, i16::MAX as i128),
        "i32" => (i32::MIN as i128, i32::MAX as i128),
        "i64" | "isize" => (i64::MIN as i128, i64::MAX as i128),
        "i128" => (i128::MIN, i128::MAX),
        _ => (i128::MIN / 2, i128::MAX / 2),
    }
}

/// pick a bound mode; `None` keeps the automatic mode. `false` is only offered when the type has
/// no type parameters (otherwise the user-written parts might not be well-typed).
fn pick_bound(d: &mut Dna, gens: &Generics, custom: impl Fn() -> Vec<String>, allow_all: bool) -> Option<BoundV> {
    let no_params = gens.types.is_empty();
    let choice = d.weighted(&[25, 25, 25, 25]);
    match choice {
        0 => Some(BoundV::True),
        1 if allow_all => Some(BoundV::All),
        1 => Some(BoundV::True),
        2 => {
            let c = custom();
            if c.is_empty() {
                if no_params {
                    Some(BoundV::False)
                } else {
                    None
                }
            } else {
                Some(BoundV::Custom(c))
            }
        },
        _ => {
            if no_params {
                Some(BoundV::False)
            } else {
                Some(BoundV::Custom(custom()))
            }
        },
    }
}

fn expr_ty_caps(ty: &str) -> u16 {
    use crate::spec::caps::*;
    match ty {
        "f32" | "f64" | "AliasF64" => DEBUG | CLONE | COPY | PEQ | PORD | DEFAULT | KEY | CONSTVAL,
        "String" => ALL & !COPY,
        "&'static [u8; 2]" => (ALL & !DEFAULT & !KEY) | CONSTVAL,
        _ => ALL | CONSTVAL,
    }
}
