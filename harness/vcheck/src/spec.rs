//! The model of a derive request: a type definition plus `#[educe(..)]` attributes at type,
//! variant and field level, with one "spelling" byte per attribute occurrence. Rendering turns a
//! spec into Rust source; semantic helpers compute what the documentation says the request means.
#![allow(dead_code)]

use std::fmt::Write as _;

#[derive(Clone, Copy, Debug, PartialEq, Eq, Hash, PartialOrd, Ord)]
pub enum Tr {
    Debug,
    Clone,
    Copy,
    PartialEq,
    Eq,
    PartialOrd,
    Ord,
    Hash,
    Default,
    Deref,
    DerefMut,
    Into,
}

pub const ALL_TRAITS: [Tr; 12] = [
    Tr::Debug,
    Tr::Clone,
    Tr::Copy,
    Tr::PartialEq,
    Tr::Eq,
    Tr::PartialOrd,
    Tr::Ord,
    Tr::Hash,
    Tr::Default,
    Tr::Deref,
    Tr::DerefMut,
    Tr::Into,
];

impl Tr {
    pub fn name(self) -> &'static str {
        match self {
            Tr::Debug => "Debug",
            Tr::Clone => "Clone",
            Tr::Copy => "Copy",
            Tr::PartialEq => "PartialEq",
            Tr::Eq => "Eq",
            Tr::PartialOrd => "PartialOrd",
            Tr::Ord => "Ord",
            Tr::Hash => "Hash",
            Tr::Default => "Default",
            Tr::Deref => "Deref",
            Tr::DerefMut => "DerefMut",
            Tr::Into => "Into",
        }
    }
    /// fully qualified path of the std trait (Into needs `<T>` appended)
    pub fn std_path(self) -> &'static str {
        match self {
            Tr::Debug => "::core::fmt::Debug",
            Tr::Clone => "::core::clone::Clone",
            Tr::Copy => "::core::marker::Copy",
            Tr::PartialEq => "::core::cmp::PartialEq",
            Tr::Eq => "::core::cmp::Eq",
            Tr::PartialOrd => "::core::cmp::PartialOrd",
            Tr::Ord => "::core::cmp::Ord",
            Tr::Hash => "::core::hash::Hash",
            Tr::Default => "::core::default::Default",
            Tr::Deref => "::core::ops::Deref",
            Tr::DerefMut => "::core::ops::DerefMut",
            Tr::Into => "::core::convert::Into",
        }
    }
    pub fn bit(self) -> u16 {
        1 << (self as u16)
    }
}

#[derive(Clone, Copy, Debug, PartialEq, Eq, Hash)]
pub enum Kind {
    Struct,
    Enum,
    Union,
}

#[derive(Clone, Copy, Debug, PartialEq, Eq, Hash)]
pub enum Shape {
    Unit,
    Tuple,
    Named,
}

// ------------------------------------------------------------------------------------------ field types

pub mod caps {
    pub const DEBUG: u16 = 1 << 0;
    pub const CLONE: u16 = 1 << 1;
    pub const COPY: u16 = 1 << 2;
    pub const PEQ: u16 = 1 << 3;
    pub const EQ: u16 = 1 << 4;
    pub const PORD: u16 = 1 << 5;
    pub const ORD: u16 = 1 << 6;
    pub const HASH: u16 = 1 << 7;
    pub const DEFAULT: u16 = 1 << 8;
    pub const KEY: u16 = 1 << 9;
    /// value expressions are constant-promotable (may sit behind `&`)
    pub const CONSTVAL: u16 = 1 << 10;
    pub const ALL: u16 = DEBUG | CLONE | COPY | PEQ | EQ | PORD | ORD | HASH | DEFAULT | KEY;
}

/// A field type as written in the definition (`src`, may mention generic parameters), as
/// instantiated in values (`inst`), with a small list of pairwise distinct value expressions.
#[derive(Clone, Debug, PartialEq, Eq, Hash)]
pub struct FTy {
    pub src: String,
    pub inst: String,
    pub vals: Vec<String>,
    pub caps: u16,
    /// generic parameters (type, lifetime or const names) mentioned by `src`
    pub params: Vec<String>,
    /// number of leading `&` in src (Deref/Into look through references)
    pub refs: u8,
    /// expression of `<inst as Default>::default()` if DEFAULT
    pub default_val: Option<String>,
    /// methods usable as `Clone(method = ..)` for this type: (path, marker description)
    pub clone_methods: Vec<String>,
}

impl FTy {
    pub fn has(&self, c: u16) -> bool {
        self.caps & c == c
    }
}

// ------------------------------------------------------------------------------------------ attributes

/// value of a `bound` parameter
#[derive(Clone, Debug, PartialEq, Eq, Hash)]
pub enum BoundV {
    /// `bound = true` / `bound(true)`: same as absent
    True,
    /// `bound = false` / `bound(false)` / `bound = ""`
    False,
    /// `bound(*)`
    All,
    /// explicit predicates
    Custom(Vec<String>),
}

#[derive(Clone, Debug, PartialEq, Eq, Hash)]
pub enum NameV {
    False,
    True,
    Custom(String),
}

/// one parameter inside `Trait(...)` at type or variant level
#[derive(Clone, Debug, PartialEq, Eq, Hash)]
pub enum TParam {
    Unsafe,
    Name(NameV),
    NamedField(bool),
    Bound(BoundV),
    New(bool),
    Expr(String),
}

#[derive(Clone, Debug, PartialEq, Eq, Hash)]
pub struct TAttr {
    pub tr: Tr,
    /// `Into(T, ..)`: the target type as written
    pub into_ty: Option<String>,
    pub params: Vec<(TParam, u8)>,
    /// spelling byte for the attribute as a whole (shorthand forms)
    pub sp: u8,
}

impl TAttr {
    pub fn flag(tr: Tr) -> TAttr {
        TAttr { tr, into_ty: None, params: vec![], sp: 0 }
    }
    pub fn bound(&self) -> Option<&BoundV> {
        self.params.iter().find_map(|(p, _)| if let TParam::Bound(b) = p { Some(b) } else { None })
    }
    pub fn name(&self) -> Option<&NameV> {
        self.params.iter().find_map(|(p, _)| if let TParam::Name(b) = p { Some(b) } else { None })
    }
    pub fn named_field(&self) -> Option<bool> {
        self.params.iter().find_map(|(p, _)| if let TParam::NamedField(b) = p { Some(*b) } else { None })
    }
    pub fn new_fn(&self) -> bool {
        self.params.iter().any(|(p, _)| matches!(p, TParam::New(true)))
    }
    pub fn expr(&self) -> Option<&str> {
        self.params.iter().find_map(|(p, _)| if let TParam::Expr(b) = p { Some(b.as_str()) } else { None })
    }
    pub fn has_unsafe(&self) -> bool {
        self.params.iter().any(|(p, _)| matches!(p, TParam::Unsafe))
    }
}

#[derive(Clone, Debug, PartialEq, Eq, Hash)]
pub enum FParam {
    Ignore(bool),
    Method(String),
    Name(String),
    Rank(i64),
    /// (expression source, is a bare literal)
    Expr(String),
}

#[derive(Clone, Debug, PartialEq, Eq, Hash)]
pub struct FAttr {
    /// trait name the attribute is written under (may be `Eq` for PartialEq's, `PartialOrd` for Ord's)
    pub tr: Tr,
    pub into_ty: Option<String>,
    pub params: Vec<(FParam, u8)>,
    pub sp: u8,
}

impl FAttr {
    pub fn ignore(&self) -> bool {
        self.params.iter().any(|(p, _)| matches!(p, FParam::Ignore(true)))
    }
    /// base name of the custom method (the path may be decorated: `crate::prelude::m_eq_le::<u8>`)
    pub fn method(&self) -> Option<&str> {
        self.params.iter().find_map(|(p, _)| if let FParam::Method(m) = p { Some(method_base(m)) } else { None })
    }
    pub fn name(&self) -> Option<&str> {
        self.params.iter().find_map(|(p, _)| if let FParam::Name(m) = p { Some(m.as_str()) } else { None })
    }
    pub fn rank(&self) -> Option<i64> {
        self.params.iter().find_map(|(p, _)| if let FParam::Rank(m) = p { Some(*m) } else { None })
    }
    pub fn expr(&self) -> Option<&str> {
        self.params.iter().find_map(|(p, _)| if let FParam::Expr(m) = p { Some(m.as_str()) } else { None })
    }
}

#[derive(Clone, Debug, PartialEq, Eq, Hash)]
pub struct FieldSpec {
    /// `None` for tuple fields
    pub name: Option<String>,
    pub ty: FTy,
    pub attrs: Vec<FAttr>,
    pub split: u8,
    /// raw attribute lines appended verbatim (fault injection)
    pub raw: Vec<String>,
    /// for Default: expected value expression when an `expression` is given
    pub default_expect: Option<String>,
    /// inert attributes and doc comments around the educe attributes (`^..` = before them, otherwise after)
    pub noise: Vec<String>,
}

#[derive(Clone, Debug, PartialEq, Eq, Hash)]
pub struct VariantSpec {
    pub name: String,
    pub shape: Shape,
    pub fields: Vec<FieldSpec>,
    pub disc: Option<i128>,
    pub attrs: Vec<TAttr>,
    pub split: u8,
    pub raw: Vec<String>,
    pub noise: Vec<String>,
    /// how an explicit discriminant is written (decimal, hex, with underscores, suffixed, octal/binary)
    pub disc_sp: u8,
}

#[derive(Clone, Debug, PartialEq, Eq, Hash, Default)]
pub struct Generics {
    /// (name without tick, bounds)
    pub lifetimes: Vec<(String, Vec<String>)>,
    /// (name, inline bounds, default, instantiation)
    pub types: Vec<TyParam>,
    /// (name, type, default, instantiation)
    pub consts: Vec<ConstParam>,
    pub where_preds: Vec<String>,
    /// declare the const parameters before the type parameters (legal since Rust 1.59)
    pub consts_first: bool,
    /// a `where` keyword with no predicate behind it (legal: `struct S<T> where { a: T }`, `struct S<T>(T) where;`)
    pub empty_where: bool,
}

#[derive(Clone, Debug, PartialEq, Eq, Hash)]
pub struct TyParam {
    pub name: String,
    pub bounds: Vec<String>,
    pub default: Option<String>,
    pub inst: String,
}

#[derive(Clone, Debug, PartialEq, Eq, Hash)]
pub struct ConstParam {
    pub name: String,
    pub ty: String,
    pub default: Option<String>,
    pub inst: String,
}

impl Generics {
    pub fn is_empty(&self) -> bool {
        self.lifetimes.is_empty() && self.types.is_empty() && self.consts.is_empty()
    }
    /// `<'a: 'b, T: X = D, const N: usize = 2>` as in the definition
    pub fn decl(&self) -> String {
        if self.is_empty() {
            return String::new();
        }
        let mut v = Vec::new();
        for (n, b) in &self.lifetimes {
            v.push(if b.is_empty() { format!("'{n}") } else { format!("'{n}: {}", b.join(" + ")) });
        }
        let mut tys = Vec::new();
        for t in &self.types {
            let mut s = t.name.clone();
            if !t.bounds.is_empty() {
                write!(s, ": {}", t.bounds.join(" + ")).unwrap();
            }
            if let Some(d) = &t.default {
                write!(s, " = {d}").unwrap();
            }
            tys.push(s);
        }
        let mut cs = Vec::new();
        for c in &self.consts {
            let mut s = format!("const {}: {}", c.name, c.ty);
            if let Some(d) = &c.default {
                write!(s, " = {d}").unwrap();
            }
            cs.push(s);
        }
        if self.consts_first {
            v.extend(cs);
            v.extend(tys);
        } else {
            v.extend(tys);
            v.extend(cs);
        }
        format!("<{}>", v.join(", "))
    }
    /// `<'a: 'b, T: X, const N: usize>` as an impl header needs it
    pub fn impl_decl(&self) -> String {
        let mut g = self.clone();
        for t in g.types.iter_mut() {
            t.default = None;
        }
        for c in g.consts.iter_mut() {
            c.default = None;
        }
        g.decl()
    }
    /// `<'a, T, N>`
    pub fn args(&self) -> String {
        if self.is_empty() {
            return String::new();
        }
        let mut v = Vec::new();
        for (n, _) in &self.lifetimes {
            v.push(format!("'{n}"));
        }
        let tys: Vec<String> = self.types.iter().map(|t| t.name.clone()).collect();
        let cs: Vec<String> = self.consts.iter().map(|c| c.name.clone()).collect();
        if self.consts_first {
            v.extend(cs);
            v.extend(tys);
        } else {
            v.extend(tys);
            v.extend(cs);
        }
        format!("<{}>", v.join(", "))
    }
    /// `<'static, u8, 2>`
    pub fn inst(&self) -> String {
        self.inst_with(&self.types.iter().map(|t| t.inst.clone()).collect::<Vec<_>>())
    }
    /// instantiation with the given arguments for the type parameters
    pub fn inst_with(&self, type_args: &[String]) -> String {
        if self.is_empty() {
            return String::new();
        }
        let mut v = Vec::new();
        for _ in &self.lifetimes {
            v.push("'static".to_string());
        }
        let cs: Vec<String> = self.consts.iter().map(|c| c.inst.clone()).collect();
        if self.consts_first {
            v.extend(cs);
            v.extend(type_args.iter().cloned());
        } else {
            v.extend(type_args.iter().cloned());
            v.extend(cs);
        }
        format!("<{}>", v.join(", "))
    }
    /// the where-clause as the definition writes it: possibly the bare keyword
    pub fn where_clause_decl(&self) -> String {
        if self.where_preds.is_empty() && self.empty_where {
            " where".to_string()
        } else {
            self.where_clause()
        }
    }
    pub fn where_clause(&self) -> String {
        if self.where_preds.is_empty() {
            String::new()
        } else {
            format!(" where {}", self.where_preds.join(", "))
        }
    }
}

#[derive(Clone, Debug, PartialEq, Eq, Hash)]
pub struct TypeSpec {
    pub kind: Kind,
    pub name: String,
    pub gens: Generics,
    pub repr: Option<String>,
    /// type-level attributes in rendered order (several `Into`)
    pub traits: Vec<TAttr>,
    pub split: u8,
    /// a struct or union has exactly one pseudo-variant
    pub variants: Vec<VariantSpec>,
    pub raw: Vec<String>,
    /// extra lines (helper items) rendered after the type inside its module
    pub extra_items: Vec<String>,
    pub noise: Vec<String>,
    /// `#[repr(u128)]` only: the discriminants of the first `disc_shift` variants are written 2^127 higher than the
    /// model's value (the model keeps i128 arithmetic). The first variant and the first unshifted variant are explicit, so
    /// implicit discriminants never continue across the boundary; `discriminants_u128` gives the real values
    pub disc_shift: usize,
    /// the definition is produced by a `macro_rules!` invocation: bit 0 = field types arrive as `$t:ty` fragments,
    /// bit 1 = explicit discriminants as `$d:expr` fragments, bit 2 = values of field-level parameters (method paths,
    /// ranks, Default expressions) as `$v:path` / `$v:expr` fragments, bit 3 = Into targets as `$g:ty`, bit 4 = field names as `$f:ident` (only with the real compiler; the in-process
    /// engine always sees the plain definition)
    pub via_macro: u8,
    /// (prelude method, alias): the definition spells the method `alias`, which a `use super::prelude::method as alias;`
    /// in `extra_items` brings into scope; the model and the observers keep using the prelude name (C19: user functions
    /// named like identifiers of the generated code)
    pub method_alias: Vec<(String, String)>,
    /// when the type-level Default expression is a bare literal that reaches the type through a user-written `From`
    /// impl: the value that impl produces (as an expression)
    pub type_expr_expect: Option<String>,
}

/// inert attribute lines: `before` selects the ones marked `^`
fn render_noise(noise: &[String], before: bool, indent: &str, out: &mut String) {
    for n in noise {
        match (n.strip_prefix('^'), before) {
            (Some(x), true) => writeln!(out, "{indent}{x}").unwrap(),
            (None, false) => writeln!(out, "{indent}{n}").unwrap(),
            _ => {},
        }
    }
}

/// the primitive integer type named in a repr list
pub fn repr_int(repr: Option<&str>) -> Option<&str> {
    repr.and_then(|r| r.split(',').map(|p| p.trim()).find(|p| matches!(*p, "u8" | "u16" | "u32" | "u64" | "u128" | "usize" | "i8" | "i16" | "i32" | "i64" | "i128" | "isize")))
}

/// an explicit discriminant in one of the literal spellings the language allows
pub fn render_disc(d: i128, sp: u8, repr: Option<&str>, shift: bool) -> String {
    if shift {
        let u = (d as u128).wrapping_add(1u128 << 127);
        return match sp % 3 {
            0 => format!("{u}"),
            1 => format!("{u:#x}"),
            _ => format!("{u}u128"),
        };
    }
    let neg = d < 0;
    let a = d.unsigned_abs();
    let sign = if neg { "-" } else { "" };
    match sp % 6 {
        1 if !neg => format!("{a:#x}"),
        2 => {
            let digits = a.to_string();
            let mut o = String::new();
            for (i, c) in digits.chars().enumerate() {
                if i > 0 && (digits.len() - i) % 3 == 0 {
                    o.push('_');
                }
                o.push(c);
            }
            format!("{sign}{o}")
        },
        3 => format!("{sign}{a}{}", repr_int(repr).unwrap_or("isize")),
        4 if !neg => format!("{a:#o}"),
        5 if !neg => format!("{a:#b}"),
        _ => format!("{sign}{a}"),
    }
}

// ------------------------------------------------------------------------------------------ spelling

fn strlit(s: &str) -> String {
    format!("\"{}\"", s.replace('\\', "\\\\").replace('"', "\\\""))
}

/// value forms shared by `p = v`, `p(v)`, `p = "v"`, `p("v")`
fn kv(p: &str, v: &str, sp: u8, allow_str: bool) -> String {
    let n = if allow_str { 4 } else { 2 };
    match sp % n {
        0 => format!("{p} = {v}"),
        1 => format!("{p}({v})"),
        2 => format!("{p} = {}", strlit(v)),
        _ => format!("{p}({})", strlit(v)),
    }
}

pub fn render_bound(b: &BoundV, sp: u8) -> String {
    match b {
        BoundV::True => kv("bound", "true", sp, false),
        BoundV::False => match sp % 3 {
            0 => "bound = false".into(),
            1 => "bound(false)".into(),
            _ => "bound = \"\"".into(),
        },
        BoundV::All => "bound(*)".into(),
        BoundV::Custom(preds) => {
            // a trailing comma and one predicate per line are ordinary ways to write a list
            let sep = if sp & 0x20 != 0 { ",\n    " } else { ", " };
            let mut s = preds.join(sep);
            if sp & 0x40 != 0 && !preds.is_empty() {
                s.push(',');
            }
            match sp % 3 {
                0 => format!("bound({s})"),
                1 => format!("bound = {}", strlit(&s)),
                _ => format!("bound({})", strlit(&s)),
            }
        },
    }
}

fn render_tparam(p: &TParam, sp: u8) -> String {
    match p {
        TParam::Unsafe => "unsafe".into(),
        TParam::Name(NameV::False) => {
            let key = if sp & 0x80 != 0 { "rename" } else { "name" };
            match sp % 3 {
                0 => format!("{key} = false"),
                1 => format!("{key}(false)"),
                _ => format!("{key} = \"\""),
            }
        },
        TParam::Name(NameV::True) => {
            let key = if sp & 0x80 != 0 { "rename" } else { "name" };
            kv(key, "true", sp, false)
        },
        TParam::Name(NameV::Custom(id)) => {
            let key = if sp & 0x80 != 0 { "rename" } else { "name" };
            kv(key, id, sp, true)
        },
        TParam::NamedField(b) => kv("named_field", if *b { "true" } else { "false" }, sp, false),
        TParam::Bound(b) => render_bound(b, sp),
        TParam::New(true) => match sp % 3 {
            0 => "new".into(),
            1 => "new = true".into(),
            _ => "new(true)".into(),
        },
        TParam::New(false) => kv("new", "false", sp, false),
        TParam::Expr(e) => {
            let key = if sp & 0x80 != 0 { "expr" } else { "expression" };
            kv(key, e, sp, false)
        },
    }
}

/// a multi-token Into target with other white space between its tokens (the same tokens; only a reader that looks at the
/// source text could tell)
pub fn spaced_ty(t: &str, sp: u8) -> String {
    if sp & 0x10 == 0 {
        return t.to_string();
    }
    t.replace("&'", "& '").replace('<', " < ").replace('>', " >").replace("::", " :: ")
}

pub fn render_tattr(a: &TAttr) -> String {
    let n = a.tr.name();
    if a.tr == Tr::Into {
        let mut s = format!("Into({}", spaced_ty(a.into_ty.as_deref().unwrap_or("u8"), a.sp));
        for (p, sp) in &a.params {
            write!(s, ", {}", render_tparam(p, *sp)).unwrap();
        }
        s.push(')');
        return s;
    }
    if a.params.is_empty() {
        return n.to_string();
    }
    // shorthand `Debug = Name`
    if a.tr == Tr::Debug && a.params.len() == 1 && a.sp % 2 == 1 {
        if let (TParam::Name(NameV::Custom(id)), sp) = &a.params[0] {
            return if sp % 2 == 0 { format!("{n} = {id}") } else { format!("{n} = {}", strlit(id)) };
        }
    }
    let ps: Vec<String> = a.params.iter().map(|(p, sp)| render_tparam(p, *sp)).collect();
    format!("{n}({})", ps.join(", "))
}

fn render_fparam(p: &FParam, sp: u8) -> String {
    match p {
        FParam::Ignore(true) => match sp % 3 {
            0 => "ignore".into(),
            1 => "ignore = true".into(),
            _ => "ignore(true)".into(),
        },
        FParam::Ignore(false) => kv("ignore", "false", sp, false),
        FParam::Method(m) => kv("method", m, sp, true),
        FParam::Name(id) => {
            let key = if sp & 0x80 != 0 { "rename" } else { "name" };
            kv(key, id, sp, true)
        },
        FParam::Rank(r) => kv("rank", &r.to_string(), sp, true),
        FParam::Expr(e) => {
            let key = if sp & 0x80 != 0 { "expr" } else { "expression" };
            kv(key, e, sp, false)
        },
    }
}

pub fn render_fattr(a: &FAttr) -> String {
    let n = a.tr.name();
    if a.tr == Tr::Into {
        let mut s = format!("Into({}", spaced_ty(a.into_ty.as_deref().unwrap_or("u8"), a.sp));
        for (p, sp) in &a.params {
            write!(s, ", {}", render_fparam(p, *sp)).unwrap();
        }
        s.push(')');
        return s;
    }
    if a.params.is_empty() {
        return n.to_string();
    }
    if a.params.len() == 1 && a.sp % 2 == 1 {
        match &a.params[0] {
            (FParam::Ignore(b), _) if a.tr != Tr::Default => {
                return format!("{n} = {}", if *b { "false" } else { "true" });
            },
            (FParam::Name(id), sp) if a.tr == Tr::Debug => {
                return if sp % 2 == 0 { format!("{n} = {id}") } else { format!("{n} = {}", strlit(id)) };
            },
            (FParam::Expr(e), _) if a.tr == Tr::Default => {
                return format!("{n} = {e}");
            },
            _ => {},
        }
    }
    let ps: Vec<String> = a.params.iter().map(|(p, sp)| render_fparam(p, *sp)).collect();
    format!("{n}({})", ps.join(", "))
}

/// split rendered attribute items over one or several `#[educe(..)]` attributes
fn render_attr_lines(items: &[String], split: u8, indent: &str, out: &mut String) {
    if items.is_empty() {
        return;
    }
    match split % 3 {
        0 => writeln!(out, "{indent}#[educe({})]", items.join(", ")).unwrap(),
        1 => {
            for it in items {
                writeln!(out, "{indent}#[educe({it})]").unwrap();
            }
        },
        _ => {
            let k = 1 + (split as usize / 3) % items.len();
            writeln!(out, "{indent}#[educe({})]", items[..k].join(", ")).unwrap();
            if k < items.len() {
                writeln!(out, "{indent}#[educe({})]", items[k..].join(", ")).unwrap();
            }
        },
    }
}

// ------------------------------------------------------------------------------------------ rendering

impl FieldSpec {
    fn render(&self, indent: &str, with_pub: bool, out: &mut String) {
        let items: Vec<String> = self.attrs.iter().map(render_fattr).collect();
        render_noise(&self.noise, true, indent, out);
        render_attr_lines(&items, self.split, indent, out);
        for r in &self.raw {
            writeln!(out, "{indent}{r}").unwrap();
        }
        render_noise(&self.noise, false, indent, out);
        let _ = with_pub;
        match &self.name {
            Some(n) => writeln!(out, "{indent}{n}: {},", self.ty.src).unwrap(),
            None => writeln!(out, "{indent}{},", self.ty.src).unwrap(),
        }
    }
}

impl TypeSpec {
    pub fn has(&self, tr: Tr) -> bool {
        self.traits.iter().any(|a| a.tr == tr)
    }
    pub fn attr(&self, tr: Tr) -> Option<&TAttr> {
        self.traits.iter().find(|a| a.tr == tr)
    }
    pub fn into_targets(&self) -> Vec<&TAttr> {
        self.traits.iter().filter(|a| a.tr == Tr::Into).collect()
    }
    pub fn inst_ty(&self) -> String {
        format!("{}{}", self.name, self.gens.inst())
    }
    pub fn self_ty(&self) -> String {
        format!("{}{}", self.name, self.gens.args())
    }

    /// a type written in terms of the generic parameters, instantiated like the values are (`Option<T>` -> `Option<u8>`)
    pub fn inst_of(&self, src: &str) -> String {
        let mut out = String::new();
        let chars: Vec<char> = src.chars().collect();
        let mut i = 0;
        while i < chars.len() {
            let c = chars[i];
            if c == '\'' && i + 1 < chars.len() && (chars[i + 1].is_alphabetic() || chars[i + 1] == '_') {
                // a lifetime (field types never contain char literals)
                let mut j = i + 1;
                while j < chars.len() && (chars[j].is_alphanumeric() || chars[j] == '_') {
                    j += 1;
                }
                out.push_str("'static");
                i = j;
            } else if c.is_alphabetic() || c == '_' {
                let st = i;
                while i < chars.len() && (chars[i].is_alphanumeric() || chars[i] == '_') {
                    i += 1;
                }
                let w: String = chars[st..i].iter().collect();
                if let Some(t) = self.gens.types.iter().find(|t| t.name == w) {
                    out.push_str(&t.inst);
                } else if let Some(k) = self.gens.consts.iter().find(|k| k.name == w) {
                    out.push_str(&k.inst);
                } else {
                    out.push_str(&w);
                }
            } else {
                out.push(c);
                i += 1;
            }
        }
        out
    }

    /// the type definition with `#[derive(Educe)]` and all attributes
    pub fn render_def(&self) -> String {
        self.render_def_with("Educe", true)
    }

    /// `derive`: what goes into `#[derive(..)]`; `educe_attrs`: whether `#[educe]` attributes are kept
    pub fn render_def_with(&self, derive: &str, educe_attrs: bool) -> String {
        let mut text = self.render_def_with_plain(derive, educe_attrs);
        for (m, alias) in &self.method_alias {
            text = replace_ident(&text, m, alias);
        }
        text
    }

    fn render_def_with_plain(&self, derive: &str, educe_attrs: bool) -> String {
        if self.via_macro != 0 && derive == "Educe" && educe_attrs {
            let (body, params, args) = self.macro_parts(derive, educe_attrs, self.via_macro);
            let name = self.name.trim_start_matches("r#");
            return format!("macro_rules! mk_{name} {{\n    ({}) => {{\n{body}    }};\n}}\nmk_{name}!({});\n", params.join(", "), args.join(", "));
        }
        self.render_def_inner(derive, educe_attrs, 0)
    }

    /// the definition as a `macro_rules!` caller would hand it to the derive, for the in-process engine: what `bits` turns
    /// into fragments (types, discriminants, parameter values, Into targets - see `via_macro`) is wrapped in `__ng(..)`,
    /// which `engine::expand_src` turns into the invisible None-delimited groups that fragments arrive in
    pub fn render_def_grouped(&self, bits: u8) -> String {
        let (mut body, params, args) = self.macro_parts("", true, bits & !16);
        for (p, a) in params.iter().zip(args.iter()).rev() {
            let frag = p.split(':').next().unwrap_or("");
            body = body.replace(frag, &format!("__ng({a})"));
        }
        for (m, alias) in &self.method_alias {
            body = replace_ident(&body, m, alias);
        }
        body
    }

    /// (macro body with `$x` fragments, macro parameters, arguments of the one invocation)
    fn macro_parts(&self, derive: &str, educe_attrs: bool, bits: u8) -> (String, Vec<String>, Vec<String>) {
        {
            let body = self.render_def_inner(derive, educe_attrs, bits);
            let mut params: Vec<String> = Vec::new();
            let mut args: Vec<String> = Vec::new();
            if bits & 1 != 0 {
                for (i, f) in self.all_fields().enumerate() {
                    params.push(format!("$t{i}:ty"));
                    args.push(f.ty.src.clone());
                }
            }
            if bits & 16 != 0 {
                // field names supplied by the caller (`$f:ident`): they carry the call site's hygiene while the derive
                // attribute carries the macro body's
                for (i, f) in self.all_fields().enumerate() {
                    if let Some(n) = &f.name {
                        params.push(format!("$f{i}:ident"));
                        args.push(n.clone());
                    }
                }
            }
            if bits & 2 != 0 {
                for (i, v) in self.variants.iter().enumerate() {
                    if let Some(d) = v.disc {
                        params.push(format!("$d{i}:expr"));
                        args.push(render_disc(d, v.disc_sp, self.repr.as_deref(), i < self.disc_shift));
                    }
                }
            }
            let mut body = body;
            if bits & 4 != 0 {
                // values of field-level parameters written in token form (`method = path`, `rank(3)`, `Default = expr`)
                // become `$m:path` / `$r:expr` / `$e:expr` fragments
                let mut k = 0;
                for f in self.all_fields() {
                    for a in &f.attrs {
                        for (p, sp) in &a.params {
                            let (val, kind, allow_str) = match p {
                                FParam::Method(m) => (m.clone(), "path", true),
                                FParam::Rank(r) => (r.to_string(), "expr", true),
                                FParam::Expr(e) => (e.clone(), "expr", false),
                                _ => continue,
                            };
                            // string-literal spellings cannot carry a fragment
                            if allow_str && sp % 4 >= 2 {
                                continue;
                            }
                            // a path with generic arguments is not a `path` fragment in attribute position everywhere
                            if kind == "path" && val.contains('<') {
                                continue;
                            }
                            let rendered = render_fparam(p, *sp);
                            let shorthand = format!("Default = {val}");
                            let frag = format!("$v{k}");
                            let replaced = rendered.replacen(&val, &frag, 1);
                            // first occurrence that ends at a token boundary (`method = m` must not match `method = m::<u8>`)
                            let find = |hay: &str, needle: &str| -> Option<usize> {
                                let mut from = 0;
                                while let Some(i) = hay[from..].find(needle) {
                                    let end = from + i + needle.len();
                                    let next = hay[end..].chars().next().unwrap_or(' ');
                                    if !(next.is_alphanumeric() || next == '_' || next == ':' || next == '.' || next == '"') {
                                        return Some(from + i);
                                    }
                                    from = end;
                                }
                                None
                            };
                            if let Some(i) = find(&body, &rendered) {
                                body.replace_range(i..i + rendered.len(), &replaced);
                            } else if let (true, Some(i)) = (matches!(p, FParam::Expr(_)), find(&body, &shorthand)) {
                                body.replace_range(i..i + shorthand.len(), &format!("Default = {frag}"));
                            } else {
                                continue;
                            }
                            params.push(format!("{frag}:{kind}"));
                            args.push(val);
                            k += 1;
                        }
                    }
                }
            }
            if bits & 8 != 0 {
                // Into targets as `$g:ty` fragments: every other occurrence, so that a written target meets a fragment
                for (gi, a) in self.into_targets().iter().enumerate() {
                    let Some(t) = a.into_ty.as_deref() else { continue };
                    let frag = format!("$g{gi}");
                    let mut out = String::new();
                    let mut rest = body.as_str();
                    let mut occ = 0;
                    let mut used = false;
                    let needle = format!("Into({t}");
                    while let Some(i) = rest.find(&needle) {
                        let end = i + needle.len();
                        let next = rest[end..].chars().next().unwrap_or(' ');
                        out.push_str(&rest[..i]);
                        if (next == ')' || next == ',') && occ % 2 == 0 {
                            out.push_str(&format!("Into({frag}"));
                            used = true;
                        } else {
                            out.push_str(&needle);
                        }
                        occ += 1;
                        rest = &rest[end..];
                    }
                    out.push_str(rest);
                    body = out;
                    if used {
                        params.push(format!("{frag}:ty"));
                        args.push(t.to_string());
                    }
                }
            }
            (body, params, args)
        }
    }

    fn render_def_inner(&self, derive: &str, educe_attrs: bool, mac: u8) -> String {
        let mut o = String::new();
        if !derive.is_empty() {
            writeln!(o, "#[derive({derive})]").unwrap();
        }
        if let Some(r) = &self.repr {
            // several items may share one attribute or come in attributes of their own
            if r.contains(", ") && self.split & 0x40 != 0 {
                for item in r.split(", ") {
                    writeln!(o, "#[repr({item})]").unwrap();
                }
            } else {
                writeln!(o, "#[repr({r})]").unwrap();
            }
        }
        render_noise(&self.noise, true, "", &mut o);
        if educe_attrs {
            let items: Vec<String> = self.traits.iter().map(render_tattr).collect();
            render_attr_lines(&items, self.split, "", &mut o);
            for r in &self.raw {
                writeln!(o, "{r}").unwrap();
            }
        }
        render_noise(&self.noise, false, "", &mut o);
        let kw = match self.kind {
            Kind::Struct => "struct",
            Kind::Enum => "enum",
            Kind::Union => "union",
        };
        write!(o, "pub {kw} {}{}", self.name, self.gens.decl()).unwrap();
        let wc = self.gens.where_clause_decl();
        match self.kind {
            Kind::Struct => {
                let v = &self.variants[0];
                match v.shape {
                    Shape::Unit => writeln!(o, "{wc};").unwrap(),
                    Shape::Named => {
                        writeln!(o, "{wc} {{").unwrap();
                        for f in &v.fields {
                            self.render_field(f, "    ", educe_attrs, mac, &mut o);
                        }
                        writeln!(o, "}}").unwrap();
                    },
                    Shape::Tuple => {
                        writeln!(o, "(").unwrap();
                        for f in &v.fields {
                            self.render_field(f, "    ", educe_attrs, mac, &mut o);
                        }
                        writeln!(o, "){wc};").unwrap();
                    },
                }
            },
            Kind::Union => {
                writeln!(o, "{wc} {{").unwrap();
                for f in &self.variants[0].fields {
                    self.render_field(f, "    ", educe_attrs, mac, &mut o);
                }
                writeln!(o, "}}").unwrap();
            },
            Kind::Enum => {
                writeln!(o, "{wc} {{").unwrap();
                for v in &self.variants {
                    render_noise(&v.noise, true, "    ", &mut o);
                    if educe_attrs {
                        let items: Vec<String> = v.attrs.iter().map(render_tattr).collect();
                        render_attr_lines(&items, v.split, "    ", &mut o);
                        for r in &v.raw {
                            writeln!(o, "    {r}").unwrap();
                        }
                    }
                    render_noise(&v.noise, false, "    ", &mut o);
                    match v.shape {
                        Shape::Unit => write!(o, "    {}", v.name).unwrap(),
                        Shape::Named => {
                            writeln!(o, "    {} {{", v.name).unwrap();
                            for f in &v.fields {
                                self.render_field(f, "        ", educe_attrs, mac, &mut o);
                            }
                            write!(o, "    }}").unwrap();
                        },
                        Shape::Tuple => {
                            writeln!(o, "    {}(", v.name).unwrap();
                            for f in &v.fields {
                                self.render_field(f, "        ", educe_attrs, mac, &mut o);
                            }
                            write!(o, "    )").unwrap();
                        },
                    }
                    if let Some(d) = v.disc {
                        if mac & 2 != 0 {
                            let vi = self.variants.iter().position(|w| std::ptr::eq(w, v)).unwrap_or(0);
                            write!(o, " = $d{vi}").unwrap();
                        } else {
                            let vi = self.variants.iter().position(|w| std::ptr::eq(w, v)).unwrap_or(0);
                            write!(o, " = {}", render_disc(d, v.disc_sp, self.repr.as_deref(), vi < self.disc_shift)).unwrap();
                        }
                    }
                    writeln!(o, ",").unwrap();
                }
                writeln!(o, "}}").unwrap();
            },
        }
        o
    }

    fn render_field(&self, f: &FieldSpec, indent: &str, educe_attrs: bool, mac: u8, o: &mut String) {
        if mac & (1 | 16) != 0 {
            // the field's type and/or name is a macro fragment
            let idx = self.all_fields().position(|g| std::ptr::eq(g, f)).unwrap_or(0);
            let mut g = f.clone();
            if mac & 1 != 0 {
                g.ty.src = format!("$t{idx}");
            }
            if mac & 16 != 0 && g.name.is_some() {
                g.name = Some(format!("$f{idx}"));
            }
            g.render(indent, false, o);
            return;
        }
        if educe_attrs {
            f.render(indent, false, o);
        } else {
            render_noise(&f.noise, true, indent, o);
            render_noise(&f.noise, false, indent, o);
            match &f.name {
                Some(n) => writeln!(o, "{indent}{n}: {},", f.ty.src).unwrap(),
                None => writeln!(o, "{indent}{},", f.ty.src).unwrap(),
            }
        }
    }

    /// hand-written impls of supertraits that are required but not educed (user-written parts)
    pub fn render_support_impls(&self) -> String {
        let mut o = String::new();
        let ig = self.gens.impl_decl();
        let st = self.self_ty();
        let wc0 = self.gens.where_clause();
        // conditional on the supertrait so that a conditionally educed supertrait impl is enough
        let wcs = |sup: &str| if wc0.is_empty() { format!(" where Self: {sup}") } else { format!("{wc0}, Self: {sup}") };
        let wc = wc0.clone();
        let has = |t| self.has(t);
        let need_peq = (has(Tr::Eq) || has(Tr::PartialOrd) || has(Tr::Ord)) && !has(Tr::PartialEq);
        let need_eq = has(Tr::Ord) && !has(Tr::Eq);
        let need_pord = has(Tr::Ord) && !has(Tr::PartialOrd);
        let need_clone = has(Tr::Copy) && !has(Tr::Clone);
        if need_peq {
            writeln!(o, "impl{ig} ::core::cmp::PartialEq for {st}{wc} {{ fn eq(&self, _o: &Self) -> bool {{ true }} }}").unwrap();
        }
        if need_eq {
            writeln!(o, "impl{ig} ::core::cmp::Eq for {st}{} {{}}", wcs("::core::cmp::PartialEq")).unwrap();
        }
        if need_pord {
            writeln!(o, "impl{ig} ::core::cmp::PartialOrd for {st}{} {{ fn partial_cmp(&self, _o: &Self) -> ::core::option::Option<::core::cmp::Ordering> {{ ::core::option::Option::None }} }}", wcs("::core::cmp::PartialEq")).unwrap();
        }
        if need_clone {
            // narrower than `every field is Copy`: conditional on the type parameters being Clone and Send (every instantiation
            // the harness uses is Send, but no impl can prove it for a generic T), so that the `Self: Clone` predicate of a
            // stand-alone Copy is needed
            let mut preds: Vec<String> = self.gens.where_preds.clone();
            // (with an explicit bound mode on Copy the user has to make the supertrait provable himself: plain Clone then)
            let auto = !matches!(self.attr(Tr::Copy).and_then(|a| a.bound()), Some(BoundV::All) | Some(BoundV::Custom(_)) | Some(BoundV::False));
            let narrow = if auto { " + ::core::marker::Send" } else { "" };
            preds.extend(self.gens.types.iter().filter(|t| !t.bounds.iter().any(|b| b == "?Sized")).map(|t| format!("{}: ::core::clone::Clone{narrow}", t.name)));
            let wcc = if preds.is_empty() { String::new() } else { format!(" where {}", preds.join(", ")) };
            writeln!(o, "impl{ig} ::core::clone::Clone for {st}{wcc} {{ fn clone(&self) -> Self {{ unsafe {{ ::core::ptr::read(self) }} }} }}").unwrap();
        }
        // other user-written items the request relies on (e.g. the From impls behind a literal type-level expression)
        for e in &self.extra_items {
            writeln!(o, "{e}").unwrap();
        }
        o
    }

    // -------------------------------------------------------------------------------------- values

    /// value expression for variant `vi` with per-field value indices
    pub fn value_expr(&self, vi: usize, idx: &[usize]) -> String {
        let v = &self.variants[vi];
        let path = match self.kind {
            Kind::Enum => format!("{}::{}", self.name, v.name),
            _ => self.name.clone(),
        };
        match (self.kind, v.shape) {
            (Kind::Union, _) => {
                // only the first field is initialised through a literal; byte-level values are built elsewhere
                let f = &v.fields[0];
                format!("{} {{ {}: {} }}", path, f.name.as_ref().unwrap(), f.ty.vals[idx[0] % f.ty.vals.len()])
            },
            (_, Shape::Unit) => path,
            (_, Shape::Named) => {
                let fs: Vec<String> = v
                    .fields
                    .iter()
                    .zip(idx)
                    .map(|(f, i)| format!("{}: {}", f.name.as_ref().unwrap(), f.ty.vals[*i % f.ty.vals.len()]))
                    .collect();
                format!("{} {{ {} }}", path, fs.join(", "))
            },
            (_, Shape::Tuple) => {
                let fs: Vec<String> =
                    v.fields.iter().zip(idx).map(|(f, i)| f.ty.vals[*i % f.ty.vals.len()].clone()).collect();
                format!("{}({})", path, fs.join(", "))
            },
        }
    }

    /// The value list of the design: per variant a base value, one single-field variation per
    /// field (two when the field type has three values), and an all-different value.
    pub fn value_indices(&self) -> Vec<(usize, Vec<usize>)> {
        let mut out = Vec::new();
        for (vi, v) in self.variants.iter().enumerate() {
            let n = v.fields.len();
            out.push((vi, vec![0; n]));
            for fi in 0..n {
                let nv = v.fields[fi].ty.vals.len();
                for alt in 1..nv.min(3) {
                    let mut ix = vec![0; n];
                    ix[fi] = alt;
                    out.push((vi, ix));
                }
            }
            if n >= 2 {
                let ix: Vec<usize> = v.fields.iter().map(|f| if f.ty.vals.len() > 1 { 1 } else { 0 }).collect();
                if !out.contains(&(vi, ix.clone())) {
                    out.push((vi, ix));
                }
                let ix: Vec<usize> =
                    v.fields.iter().enumerate().map(|(i, f)| (1 + i) % f.ty.vals.len().max(1)).collect();
                if !out.contains(&(vi, ix.clone())) {
                    out.push((vi, ix));
                }
            }
        }
        out
    }

    /// `fn vals() -> Vec<Ty>` source. Union values are built in zeroed storage (every byte
    /// initialised) by writing one field at a time.
    pub fn render_vals_fn(&self) -> String {
        let ty = self.inst_ty();
        let mut o = format!("pub fn vals() -> ::std::vec::Vec<{ty}> {{\n    let mut v: ::std::vec::Vec<{ty}> = ::std::vec::Vec::new();\n");
        if self.kind == Kind::Union {
            for f in &self.variants[0].fields {
                for val in &f.ty.vals {
                    writeln!(
                        o,
                        "    {{ let mut u = ::core::mem::MaybeUninit::<{ty}>::zeroed(); let x: {ty} = unsafe {{ (*u.as_mut_ptr()).{} = {}; u.assume_init() }}; v.push(x); }}",
                        f.name.as_ref().unwrap(),
                        val
                    )
                    .unwrap();
                }
            }
        } else {
            for (vi, ix) in self.value_indices() {
                writeln!(o, "    {{ let x: {ty} = {}; v.push(x); }}", self.value_expr(vi, &ix)).unwrap();
            }
        }
        o.push_str("    v\n}\n");
        o
    }

    /// pattern destructuring variant `vi`, binding field `i` to `{prefix}{i}`
    pub fn pattern(&self, vi: usize, prefix: &str) -> String {
        let v = &self.variants[vi];
        let path = match self.kind {
            Kind::Enum => format!("{}::{}", self.name, v.name),
            _ => self.name.clone(),
        };
        match v.shape {
            Shape::Unit => path,
            Shape::Named => {
                let fs: Vec<String> = v
                    .fields
                    .iter()
                    .enumerate()
                    .map(|(i, f)| format!("{}: {prefix}{i}", f.name.as_ref().unwrap()))
                    .collect();
                format!("{} {{ {} }}", path, fs.join(", "))
            },
            Shape::Tuple => {
                let fs: Vec<String> = (0..v.fields.len()).map(|i| format!("{prefix}{i}")).collect();
                format!("{}({})", path, fs.join(", "))
            },
        }
    }

    /// `fn variant_of(x: &Ty) -> usize`
    pub fn render_variant_of(&self) -> String {
        let ty = self.inst_ty();
        let mut o = format!("pub fn variant_of(x: &{ty}) -> usize {{\n");
        if self.variants.is_empty() {
            o.push_str("    match *x {}\n}\n");
            return o;
        }
        if self.kind != Kind::Enum {
            o.push_str("    let _ = x; 0\n}\n");
            return o;
        }
        o.push_str("    match x {\n");
        for (vi, v) in self.variants.iter().enumerate() {
            let pat = match v.shape {
                Shape::Unit => format!("{}::{}", self.name, v.name),
                Shape::Named => format!("{}::{} {{ .. }}", self.name, v.name),
                Shape::Tuple => format!("{}::{}(..)", self.name, v.name),
            };
            writeln!(o, "        {pat} => {vi},").unwrap();
        }
        o.push_str("    }\n}\n");
        o
    }

    // -------------------------------------------------------------------------------------- semantics

    /// discriminant values per variant as the language defines them
    pub fn discriminants(&self) -> Vec<i128> {
        let mut out = Vec::new();
        let mut next: i128 = 0;
        for v in &self.variants {
            let d = v.disc.unwrap_or(next);
            out.push(d);
            next = d.wrapping_add(1);
        }
        out
    }

    /// the real discriminant values of a `#[repr(u128)]` enum (see `disc_shift`)
    pub fn discriminants_u128(&self) -> Vec<u128> {
        self.discriminants().iter().enumerate().map(|(i, d)| if i < self.disc_shift { (*d as u128).wrapping_add(1u128 << 127) } else { *d as u128 }).collect()
    }

    pub fn all_fields(&self) -> impl Iterator<Item = &FieldSpec> {
        self.variants.iter().flat_map(|v| v.fields.iter())
    }

    /// walk every spelling byte (type, variant, field level) in a fixed order
    pub fn spelling_bytes_mut(&mut self) -> Vec<&mut u8> {
        let mut out: Vec<&mut u8> = Vec::new();
        out.push(&mut self.split);
        for a in self.traits.iter_mut() {
            out.push(&mut a.sp);
            for (_, sp) in a.params.iter_mut() {
                out.push(sp);
            }
        }
        for v in self.variants.iter_mut() {
            out.push(&mut v.split);
            for a in v.attrs.iter_mut() {
                out.push(&mut a.sp);
                for (_, sp) in a.params.iter_mut() {
                    out.push(sp);
                }
            }
            for f in v.fields.iter_mut() {
                out.push(&mut f.split);
                for a in f.attrs.iter_mut() {
                    out.push(&mut a.sp);
                    for (_, sp) in a.params.iter_mut() {
                        out.push(sp);
                    }
                }
            }
        }
        out
    }
}

impl FieldSpec {
    /// the attribute that configures semantic trait `sem` on this field, following the documented
    /// couplings: PartialEq's attributes may be written under `Eq`, Ord's under `PartialOrd`.
    pub fn attr_for(&self, sem: Tr) -> Option<&FAttr> {
        self.attrs.iter().find(|a| match sem {
            Tr::PartialEq | Tr::Eq => a.tr == Tr::PartialEq || a.tr == Tr::Eq,
            Tr::PartialOrd | Tr::Ord => a.tr == Tr::PartialOrd || a.tr == Tr::Ord,
            t => a.tr == t,
        })
    }
    pub fn ignored(&self, sem: Tr) -> bool {
        self.attr_for(sem).map(|a| a.ignore()).unwrap_or(false)
    }
    pub fn method(&self, sem: Tr) -> Option<&str> {
        self.attr_for(sem).and_then(|a| a.method())
    }
    pub fn is_marker(&self, tr: Tr) -> bool {
        self.attrs.iter().any(|a| a.tr == tr && a.params.is_empty() && a.into_ty.is_none())
    }
    pub fn into_attr(&self, ty: &str) -> Option<&FAttr> {
        self.attrs.iter().find(|a| a.tr == Tr::Into && a.into_ty.as_deref() == Some(ty))
    }
}

/// `crate::prelude::m_eq_le::<u8>` -> `m_eq_le`
/// replace the identifier `from` (whole word, not a lifetime) by `to`
pub fn replace_ident(text: &str, from: &str, to: &str) -> String {
    let mut out = String::new();
    let chars: Vec<char> = text.chars().collect();
    let mut i = 0;
    while i < chars.len() {
        if chars[i].is_alphanumeric() || chars[i] == '_' {
            let st = i;
            while i < chars.len() && (chars[i].is_alphanumeric() || chars[i] == '_') {
                i += 1;
            }
            let w: String = chars[st..i].iter().collect();
            if w == from && (st == 0 || chars[st - 1] != '\'') {
                out.push_str(to);
            } else {
                out.push_str(&w);
            }
        } else {
            out.push(chars[i]);
            i += 1;
        }
    }
    out
}

pub fn method_base(m: &str) -> &str {
    let no_args = m.split("::<").next().unwrap_or(m);
    no_args.rsplit("::").next().unwrap_or(no_args)
}

/// stable 64-bit FNV hash of a string (distinctness accounting, replay file names)
pub fn fnv64(s: &str) -> u64 {
    let mut h: u64 = 0xcbf29ce484222325;
    for b in s.bytes() {
        h = (h ^ b as u64).wrapping_mul(0x100000001b3);
    }
    h
}
