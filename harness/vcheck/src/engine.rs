//! Engine P (in-process expansion through the `verif_expand` hook) and Engine R (the shipping
//! proc macro, rebuilt from /repo's working tree, driven through real `rustc`).
#![allow(dead_code)]

use std::panic::{catch_unwind, AssertUnwindSafe};
use std::path::{Path, PathBuf};
use std::process::Command;
use std::sync::Once;

// ------------------------------------------------------------------------------------------ Engine P

#[derive(Clone, Debug, PartialEq, Eq)]
pub enum Expansion {
    Ok(String),
    Err(String),
    Panic(String),
    /// the input itself is not a parseable token stream / derive input (harness problem or mutation too wild)
    Unparsable(String),
}

impl Expansion {
    pub fn is_ok(&self) -> bool {
        matches!(self, Expansion::Ok(_))
    }
    pub fn is_err(&self) -> bool {
        matches!(self, Expansion::Err(_))
    }
    pub fn tag(&self) -> &'static str {
        match self {
            Expansion::Ok(_) => "ok",
            Expansion::Err(_) => "err",
            Expansion::Panic(_) => "panic",
            Expansion::Unparsable(_) => "unparsable",
        }
    }
}

static HOOK: Once = Once::new();
thread_local! {
    static LAST_PANIC: std::cell::RefCell<String> = std::cell::RefCell::new(String::new());
}

fn install_quiet_hook() {
    HOOK.call_once(|| {
        let prev = std::panic::take_hook();
        std::panic::set_hook(Box::new(move |info| {
            let in_expand = IN_EXPAND.with(|c| c.get());
            if in_expand {
                let loc = info.location().map(|l| format!("{}:{}", l.file(), l.line())).unwrap_or_default();
                let msg = if let Some(s) = info.payload().downcast_ref::<&str>() {
                    s.to_string()
                } else if let Some(s) = info.payload().downcast_ref::<String>() {
                    s.clone()
                } else {
                    "<non-string panic>".to_string()
                };
                LAST_PANIC.with(|p| *p.borrow_mut() = format!("{msg} @ {loc}"));
            } else {
                prev(info);
            }
        }));
    });
}

thread_local! {
    static IN_EXPAND: std::cell::Cell<bool> = std::cell::Cell::new(false);
}

/// expand a derive input given as source text (without the `#[derive(Educe)]` line)
pub fn expand_src(src: &str) -> Expansion {
    let ts: proc_macro2::TokenStream = match src.parse() {
        Ok(t) => t,
        Err(e) => return Expansion::Unparsable(e.to_string()),
    };
    let ts = if src.contains("__ng") { none_groups(ts) } else { ts };
    expand_tokens(ts)
}

/// `__ng(tokens)` becomes the invisible None-delimited group in which `macro_rules!` hands a `$x:ty` / `$x:expr` /
/// `$x:path` fragment to a derive (source text cannot spell such a group)
pub fn none_groups(ts: proc_macro2::TokenStream) -> proc_macro2::TokenStream {
    use proc_macro2::{Delimiter, Group, TokenTree};
    let mut out: Vec<TokenTree> = Vec::new();
    let mut it = ts.into_iter().peekable();
    while let Some(tt) = it.next() {
        match tt {
            TokenTree::Ident(ref i) if i == "__ng" => {
                if let Some(TokenTree::Group(g)) = it.peek() {
                    if g.delimiter() == Delimiter::Parenthesis {
                        let inner = none_groups(g.stream());
                        out.push(TokenTree::Group(Group::new(Delimiter::None, inner)));
                        it.next();
                        continue;
                    }
                }
                out.push(tt);
            },
            TokenTree::Group(g) => {
                let mut ng = Group::new(g.delimiter(), none_groups(g.stream()));
                ng.set_span(g.span());
                out.push(TokenTree::Group(ng));
            },
            other => out.push(other),
        }
    }
    out.into_iter().collect()
}

pub fn expand_tokens(ts: proc_macro2::TokenStream) -> Expansion {
    install_quiet_hook();
    if syn::parse2::<syn::DeriveInput>(ts.clone()).is_err() {
        return Expansion::Unparsable("not a derive input".into());
    }
    IN_EXPAND.with(|c| c.set(true));
    let r = catch_unwind(AssertUnwindSafe(|| educe_inproc::verif_expand(ts)));
    IN_EXPAND.with(|c| c.set(false));
    match r {
        Ok(Ok(t)) => Expansion::Ok(t.to_string()),
        Ok(Err(e)) => {
            // the diagnostic must carry a span and a message (C17); turning it into the compile_error!
            // tokens the real macro would emit must not panic either
            IN_EXPAND.with(|c| c.set(true));
            let r2 = catch_unwind(AssertUnwindSafe(|| {
                let toks = e.to_compile_error().to_string();
                let msgs: Vec<String> = e.into_iter().map(|x| x.to_string()).collect();
                (toks, msgs)
            }));
            IN_EXPAND.with(|c| c.set(false));
            match r2 {
                Ok((toks, msgs)) if !toks.is_empty() && msgs.iter().all(|m| !m.is_empty()) => Expansion::Err(msgs.join(" | ")),
                Ok(_) => Expansion::Panic("diagnostic without message or tokens".into()),
                Err(_) => Expansion::Panic(format!("while rendering the diagnostic: {}", LAST_PANIC.with(|p| p.borrow().clone()))),
            }
        },
        Err(_) => Expansion::Panic(LAST_PANIC.with(|p| p.borrow().clone())),
    }
}

// ------------------------------------------------------------------------------------------ isolated expansion
//
// A stack overflow or an abort inside the subject cannot be caught in-process. Checks whose oracle is "the macro
// terminates with Ok or Err" therefore expand in child processes: a child that dies names the input it was working on.

/// outcome of an expansion that ran in a child process
#[derive(Clone, Debug)]
pub enum Iso {
    Done(Expansion),
    /// the child process died (signal / abort) while expanding this input
    Crashed(String),
    /// no answer: `true` = the child used up its CPU-time allowance (a busy loop, independent of machine load),
    /// `false` = only the wall-clock watchdog fired
    Hung(bool),
}

/// CPU seconds a child process may use before the kernel stops it (SIGXCPU): a chunk of several thousand expansions
/// needs about two
pub const CHILD_CPU_LIMIT: u64 = 120;

/// `program` started through `sh` with a CPU-time limit; arguments are appended by the caller
pub fn limited(program: &std::ffi::OsStr, cpu_secs: u64) -> Command {
    let mut c = Command::new("sh");
    c.arg("-c").arg(format!("ulimit -t {cpu_secs}; exec \"$0\" \"$@\"")).arg(program);
    c
}

/// was the process stopped by the CPU-time limit? (SIGXCPU, or SIGKILL at the hard limit)
pub fn cpu_limit_signal(sig: i32) -> bool {
    sig == 24 || sig == 9
}

/// `vcheck expand-child <file>`: expands every source of the JSON array in <file>, one result line each
pub fn expand_child(args: &[String]) -> i32 {
    use std::io::Write;
    let Some(path) = args.get(1) else { return 2 };
    let Ok(text) = std::fs::read_to_string(path) else { return 2 };
    let Ok(list) = serde_json::from_str::<Vec<String>>(&text) else { return 2 };
    let keep_ok = args.get(2).map(|s| s == "keep-ok").unwrap_or(false);
    // the same stack rustc gives its main thread by default
    let h = std::thread::Builder::new().stack_size(8 << 20).spawn(move || {
        let out = std::io::stdout();
        for src in list {
            let r = expand_src(&src);
            let (t, m) = match &r {
                // (an accepted request must produce items: an empty expansion is reported as such)
                Expansion::Ok(s) => ("ok", if keep_ok { s.clone() } else if s.trim().is_empty() { "<empty>".to_string() } else { String::new() }),
                Expansion::Err(m) => ("err", m.clone()),
                Expansion::Panic(m) => ("panic", m.clone()),
                Expansion::Unparsable(m) => ("unparsable", m.clone()),
            };
            let mut o = out.lock();
            let _ = writeln!(o, "{}", serde_json::json!({"t": t, "m": m}));
            let _ = o.flush();
        }
    });
    match h.map(|h| h.join()) {
        Ok(Ok(())) => 0,
        _ => 3,
    }
}

/// expand `sources` in `workers` child processes; a crash is attributed to the input that was being expanded and
/// the rest of the chunk continues in a fresh child
pub fn expand_isolated(tag: &str, sources: &[String], keep_ok: bool) -> Vec<Iso> {
    use rayon::prelude::*;
    let dir = work_dir(tag);
    let exe = std::env::current_exe().expect("current exe");
    let workers = 16usize;
    let chunk = ((sources.len() + workers - 1) / workers).max(1);
    let chunks: Vec<(usize, &[String])> = sources.chunks(chunk).enumerate().collect();
    let parts: Vec<Vec<Iso>> = chunks
        .par_iter()
        .map(|(ci, list)| {
            let mut out: Vec<Iso> = Vec::with_capacity(list.len());
            let mut start = 0usize;
            let mut respawns = 0;
            while start < list.len() {
                let f = dir.join(format!("chunk_{ci}_{start}.json"));
                std::fs::write(&f, serde_json::to_string(&list[start..].to_vec()).unwrap()).unwrap();
                let mut cmd = limited(exe.as_os_str(), CHILD_CPU_LIMIT);
                cmd.arg("expand-child").arg(&f);
                if keep_ok {
                    cmd.arg("keep-ok");
                }
                cmd.stdout(std::process::Stdio::piped()).stderr(std::process::Stdio::piped());
                let res = run_with_timeout(cmd, 240);
                let _ = std::fs::remove_file(&f);
                let (stdout, status_txt, timed_out) = res;
                let cpu_stop = status_txt.starts_with("killed by signal 24") || status_txt.starts_with("killed by signal 9");
                let mut got = 0usize;
                for l in stdout.lines() {
                    let Ok(v) = serde_json::from_str::<serde_json::Value>(l) else { continue };
                    let m = v["m"].as_str().unwrap_or("").to_string();
                    out.push(Iso::Done(match v["t"].as_str().unwrap_or("") {
                        "ok" => Expansion::Ok(m),
                        "err" => Expansion::Err(m),
                        "panic" => Expansion::Panic(m),
                        _ => Expansion::Unparsable(m),
                    }));
                    got += 1;
                }
                start += got;
                if start >= list.len() {
                    break;
                }
                // the child stopped early: the next input is the one it was working on
                out.push(if timed_out {
                    Iso::Hung(false)
                } else if cpu_stop {
                    Iso::Hung(true)
                } else {
                    Iso::Crashed(status_txt)
                });
                start += 1;
                respawns += 1;
                if respawns > 40 {
                    // give up on the rest of this chunk (reported by the caller as inconclusive through the count)
                    while start < list.len() {
                        out.push(Iso::Hung(false));
                        start += 1;
                    }
                }
            }
            out
        })
        .collect();
    let _ = std::fs::remove_dir_all(&dir);
    parts.into_iter().flatten().collect()
}

/// run a command, kill it after `secs` seconds; returns (stdout, how it ended, timed out)
fn run_with_timeout(mut cmd: Command, secs: u64) -> (String, String, bool) {
    use std::io::Read;
    let Ok(mut child) = cmd.spawn() else { return (String::new(), "could not spawn".into(), false) };
    let mut so = child.stdout.take().unwrap();
    let mut se = child.stderr.take().unwrap();
    let t1 = std::thread::spawn(move || {
        let mut s = String::new();
        let _ = so.read_to_string(&mut s);
        s
    });
    let t2 = std::thread::spawn(move || {
        let mut s = String::new();
        let _ = se.read_to_string(&mut s);
        s
    });
    let start = std::time::Instant::now();
    let mut timed_out = false;
    let status = loop {
        match child.try_wait() {
            Ok(Some(st)) => break Some(st),
            Ok(None) => {
                if start.elapsed().as_secs() > secs {
                    let _ = child.kill();
                    timed_out = true;
                    break child.wait().ok();
                }
                std::thread::sleep(std::time::Duration::from_millis(20));
            },
            Err(_) => break None,
        }
    };
    let stdout = t1.join().unwrap_or_default();
    let stderr = t2.join().unwrap_or_default();
    let how = match status {
        Some(st) => {
            use std::os::unix::process::ExitStatusExt;
            let last = stderr.lines().rev().find(|l| !l.trim().is_empty()).unwrap_or("").chars().take(160).collect::<String>();
            match st.signal() {
                Some(sig) => format!("killed by signal {sig}: {last}"),
                None => format!("exit status {:?}: {last}", st.code()),
            }
        },
        None => "unknown".into(),
    };
    (stdout, how, timed_out)
}

// ------------------------------------------------------------------------------------------ Engine R

pub const VERIF: &str = "/verif";
pub const REPO: &str = "/repo";

pub fn work_dir(sub: &str) -> PathBuf {
    let p = Path::new(VERIF).join("work").join(sub);
    let _ = std::fs::create_dir_all(&p);
    p
}

#[derive(Debug)]
pub struct Inconclusive(pub String);

/// Build the shipping proc macro (guard off) from /repo's working tree; returns the path of the
/// dylib. cargo decides whether anything needs rebuilding.
pub fn build_proc_macro() -> Result<PathBuf, Inconclusive> {
    let target = Path::new(VERIF).join("target").join("pm");
    let out = Command::new("cargo")
        .args(["build", "--offline", "--quiet", "--manifest-path", "/repo/Cargo.toml", "--target-dir"])
        .arg(&target)
        .env("CARGO_NET_OFFLINE", "true")
        .env_remove("RUSTFLAGS")
        .env_remove("CARGO_ENCODED_RUSTFLAGS")
        .env_remove("CARGO_BUILD_RUSTFLAGS")
        // not from inside harness/, whose .cargo/config.toml turns the verification guard on
        .current_dir(VERIF)
        .output()
        .map_err(|e| Inconclusive(format!("cannot run cargo: {e}")))?;
    if !out.status.success() {
        return Err(Inconclusive(format!(
            "/repo does not build (guard off): {}",
            String::from_utf8_lossy(&out.stderr).chars().take(2000).collect::<String>()
        )));
    }
    let so = target.join("debug").join("libeduce.so");
    if !so.exists() {
        return Err(Inconclusive(format!("{} missing after build", so.display())));
    }
    Ok(so)
}

#[derive(Clone, Debug)]
pub struct Diag {
    pub level: String,
    pub message: String,
    pub code: Option<String>,
    pub line: usize,
    pub rendered: String,
}

pub struct CompileResult {
    pub success: bool,
    pub diags: Vec<Diag>,
    /// rustc was killed by a signal / crashed without diagnostics
    pub crashed: Option<String>,
    pub exe: PathBuf,
}

/// Compile `src` as a binary crate against the proc macro.
pub fn rustc_compile(src_path: &Path, exe: &Path, so: &Path, extra: &[&str]) -> CompileResult {
    // a macro that loops would otherwise hang every check that compiles something: rustc runs under a CPU-time limit
    // (a 300-type batch needs about 40 CPU seconds)
    let cpu: u64 = std::env::var("VERIF_RUSTC_CPU").ok().and_then(|s| s.parse().ok()).unwrap_or(900);
    let mut cmd = limited(std::ffi::OsStr::new("rustc"), cpu);
    cmd.args(["--edition", "2021", "--error-format=json", "-C", "debuginfo=0", "-C", "debug-assertions=on", "-C", "overflow-checks=on"])
        .arg("--extern")
        .arg(format!("educe={}", so.display()))
        .args(extra)
        .arg("-o")
        .arg(exe)
        .arg(src_path)
        .env_remove("RUSTFLAGS");
    let out = match cmd.output() {
        Ok(o) => o,
        Err(e) => {
            return CompileResult { success: false, diags: vec![], crashed: Some(format!("cannot run rustc: {e}")), exe: exe.to_path_buf() }
        },
    };
    let stderr = String::from_utf8_lossy(&out.stderr);
    let mut diags = Vec::new();
    let mut other = String::new();
    for line in stderr.lines() {
        if let Ok(v) = serde_json::from_str::<serde_json::Value>(line) {
            let level = v["level"].as_str().unwrap_or("").to_string();
            if level == "failure-note" || level.is_empty() {
                continue;
            }
            let message = v["message"].as_str().unwrap_or("").to_string();
            if message.starts_with("aborting due to") || message.contains("warning emitted") || message.contains("warnings emitted") {
                continue;
            }
            let code = v["code"]["code"].as_str().map(|s| s.to_string());
            let mut line_no = 0usize;
            if let Some(spans) = v["spans"].as_array() {
                // primary span, following macro expansion back to the call site in this file
                for sp in spans {
                    if sp["is_primary"].as_bool().unwrap_or(false) {
                        let mut cur = sp;
                        let mut l = cur["line_start"].as_u64().unwrap_or(0) as usize;
                        let mut guard = 0;
                        while !cur["expansion"].is_null() && guard < 16 {
                            cur = &cur["expansion"]["span"];
                            if let Some(x) = cur["line_start"].as_u64() {
                                l = x as usize;
                            }
                            guard += 1;
                        }
                        line_no = l;
                    }
                }
                if line_no == 0 {
                    if let Some(sp) = spans.first() {
                        line_no = sp["line_start"].as_u64().unwrap_or(0) as usize;
                    }
                }
            }
            let rendered = v["rendered"].as_str().unwrap_or("").to_string();
            diags.push(Diag { level, message, code, line: line_no, rendered });
        } else {
            other.push_str(line);
            other.push('\n');
        }
    }
    let mut crashed = None;
    if !out.status.success() {
        #[cfg(unix)]
        {
            use std::os::unix::process::ExitStatusExt;
            if let Some(sig) = out.status.signal() {
                crashed = Some(if cpu_limit_signal(sig) {
                    format!("CPU-LIMIT: rustc was stopped after {cpu} s of CPU time (signal {sig}) without finishing")
                } else {
                    format!("rustc killed by signal {sig}: {}", other.chars().take(600).collect::<String>())
                });
            }
        }
        if crashed.is_none() && (other.contains("internal compiler error") || other.contains("panicked at") || diags.iter().all(|d| d.level != "error")) {
            crashed = Some(format!("rustc failed without an error diagnostic: {}", other.chars().take(1200).collect::<String>()));
        }
    }
    CompileResult { success: out.status.success(), diags, crashed, exe: exe.to_path_buf() }
}

pub struct RunResult {
    pub stdout: String,
    pub stderr: String,
    pub ok: bool,
    pub signal: Option<i32>,
    pub timed_out: bool,
}

/// run a compiled batch (optionally a single type index) under a watchdog
pub fn run_exe(exe: &Path, arg: Option<usize>, timeout_s: u64) -> RunResult {
    let mut cmd = Command::new(exe);
    if let Some(a) = arg {
        cmd.arg(a.to_string());
    }
    cmd.stdout(std::process::Stdio::piped()).stderr(std::process::Stdio::piped());
    let mut child = match cmd.spawn() {
        Ok(c) => c,
        Err(e) => return RunResult { stdout: String::new(), stderr: format!("spawn: {e}"), ok: false, signal: None, timed_out: false },
    };
    let start = std::time::Instant::now();
    // drain pipes on threads so a chatty child cannot block
    let mut so = child.stdout.take().unwrap();
    let mut se = child.stderr.take().unwrap();
    let t1 = std::thread::spawn(move || {
        let mut s = String::new();
        let _ = std::io::Read::read_to_string(&mut so, &mut s);
        s
    });
    let t2 = std::thread::spawn(move || {
        let mut s = String::new();
        let _ = std::io::Read::read_to_string(&mut se, &mut s);
        s
    });
    let mut timed_out = false;
    let status = loop {
        match child.try_wait() {
            Ok(Some(st)) => break Some(st),
            Ok(None) => {
                if start.elapsed().as_secs() > timeout_s {
                    let _ = child.kill();
                    timed_out = true;
                    break child.wait().ok();
                }
                std::thread::sleep(std::time::Duration::from_millis(5));
            },
            Err(_) => break None,
        }
    };
    let stdout = t1.join().unwrap_or_default();
    let stderr = t2.join().unwrap_or_default();
    let mut signal = None;
    let ok = status.map(|s| s.success()).unwrap_or(false);
    #[cfg(unix)]
    if let Some(st) = status {
        use std::os::unix::process::ExitStatusExt;
        signal = st.signal();
    }
    RunResult { stdout, stderr, ok, signal, timed_out }
}

// ------------------------------------------------------------------------------------------ batch programs

/// One generated type with its observer, rendered as the body of `mod tN { .. }`.
#[derive(Clone, Debug)]
pub struct Unit {
    /// module body: imports, type definition, helpers, `pub fn run(o: &mut Out)`
    pub body: String,
    /// whether `run` exists (compile-only units have none)
    pub has_run: bool,
}

pub struct Program {
    pub src: String,
    /// 1-based inclusive line ranges of every unit's module
    pub ranges: Vec<(usize, usize)>,
}

pub fn render_program(units: &[Unit], crate_attrs: &str) -> Program {
    let mut src = String::new();
    src.push_str(crate_attrs);
    src.push_str(include_str!("prelude.rs"));
    src.push('\n');
    let mut ranges = Vec::new();
    for (i, u) in units.iter().enumerate() {
        let start = src.lines().count() + 1;
        src.push_str(&format!("#[allow(dead_code, non_camel_case_types, non_snake_case, non_upper_case_globals, unused_imports)]\npub mod t{i} {{\n"));
        src.push_str(&u.body);
        if !u.body.ends_with('\n') {
            src.push('\n');
        }
        src.push_str("}\n");
        let end = src.lines().count();
        ranges.push((start, end));
    }
    src.push_str("fn main() {\n    let only: ::core::option::Option<usize> = ::std::env::args().nth(1).and_then(|s| s.parse().ok());\n    let _ = &only;\n");
    for (i, u) in units.iter().enumerate() {
        if u.has_run {
            src.push_str(&format!(
                "    if only.is_none() || only == ::core::option::Option::Some({i}) {{ let mut o = prelude::Out::new({i}); t{i}::run(&mut o); o.finish(); }}\n"
            ));
        }
    }
    src.push_str("}\n");
    Program { src, ranges }
}

impl Program {
    pub fn unit_of_line(&self, line: usize) -> Option<usize> {
        self.ranges.iter().position(|(a, b)| line >= *a && line <= *b)
    }
}

/// outcome of one unit after compiling and (optionally) running a batch
#[derive(Clone, Debug, Default)]
pub struct UnitOutcome {
    pub compile_errors: Vec<String>,
    pub warnings: Vec<String>,
    pub ran: bool,
    pub checks: u64,
    pub fails: Vec<String>,
    pub fail_count: u64,
    pub tallies: Vec<(String, u64)>,
    /// process died while running this unit
    pub died: Option<String>,
    pub proc_macro_panic: bool,
}

pub struct BatchOutcome {
    pub units: Vec<UnitOutcome>,
    /// diagnostics that could not be attributed to a unit (prelude / main): harness trouble
    pub stray: Vec<String>,
    pub crashed: Option<String>,
}

/// compile (bisecting on failure so every unit gets its own verdict) and run a batch
pub fn eval_batch(tag: &str, units: &[Unit], so: &Path, crate_attrs: &str, run: bool) -> BatchOutcome {
    let dir = work_dir(tag);
    let mut outcomes: Vec<UnitOutcome> = vec![UnitOutcome::default(); units.len()];
    let mut stray = Vec::new();
    let mut crashed = None;
    // iterative bisection over index sets
    let mut todo: Vec<Vec<usize>> = vec![(0..units.len()).collect()];
    let mut serial = 0usize;
    while let Some(ix) = todo.pop() {
        if ix.is_empty() {
            continue;
        }
        serial += 1;
        let sub: Vec<Unit> = ix.iter().map(|i| units[*i].clone()).collect();
        let prog = render_program(&sub, crate_attrs);
        let src_path = dir.join(format!("b{serial}.rs"));
        let exe = dir.join(format!("b{serial}"));
        std::fs::write(&src_path, &prog.src).expect("write batch source");
        let cr = rustc_compile(&src_path, &exe, so, &[]);
        if let Some(c) = &cr.crashed {
            if ix.len() == 1 {
                outcomes[ix[0]].died = Some(c.clone());
                outcomes[ix[0]].proc_macro_panic = true;
            } else {
                let mid = ix.len() / 2;
                todo.push(ix[..mid].to_vec());
                todo.push(ix[mid..].to_vec());
            }
            if ix.len() == 1 {
                crashed = Some(c.clone());
            }
            let _ = std::fs::remove_file(&src_path);
            continue;
        }
        let mut unit_has_error = vec![false; ix.len()];
        let mut any_error = false;
        let mut local: Vec<(usize, Diag)> = Vec::new();
        for dg in &cr.diags {
            if dg.level != "error" && dg.level != "warning" {
                continue;
            }
            match prog.unit_of_line(dg.line) {
                Some(u) => {
                    if dg.level == "error" {
                        unit_has_error[u] = true;
                        any_error = true;
                    }
                    local.push((u, dg.clone()));
                },
                None => {
                    if dg.level == "error" {
                        any_error = true;
                    }
                    stray.push(format!("{}: {} (line {})", dg.level, dg.message, dg.line));
                },
            }
        }
        if cr.success || ix.len() == 1 {
            for (u, dg) in local {
                let o = &mut outcomes[ix[u]];
                let text = format!("{}{}: {}", dg.level, dg.code.as_ref().map(|c| format!("[{c}]")).unwrap_or_default(), dg.message);
                if dg.message.contains("proc-macro derive panicked") || dg.message.contains("proc macro panicked") {
                    o.proc_macro_panic = true;
                }
                if dg.level == "error" {
                    o.compile_errors.push(text);
                } else {
                    o.warnings.push(text);
                }
            }
            if !cr.success && ix.len() == 1 && outcomes[ix[0]].compile_errors.is_empty() {
                outcomes[ix[0]].compile_errors.push(format!("compilation failed: {:?}", cr.diags.iter().map(|d| d.message.clone()).collect::<Vec<_>>()));
            }
            if cr.success && run {
                run_units(&exe, &ix, units, &mut outcomes);
            }
        } else {
            // split: failing units go alone, the rest together
            let _ = any_error;
            let bad: Vec<usize> = ix.iter().enumerate().filter(|(k, _)| unit_has_error[*k]).map(|(_, i)| *i).collect();
            let good: Vec<usize> = ix.iter().enumerate().filter(|(k, _)| !unit_has_error[*k]).map(|(_, i)| *i).collect();
            if bad.is_empty() {
                // error outside any unit: bisect blindly
                let mid = ix.len() / 2;
                todo.push(ix[..mid].to_vec());
                todo.push(ix[mid..].to_vec());
            } else {
                for b in bad {
                    todo.push(vec![b]);
                }
                todo.push(good);
            }
        }
        let _ = std::fs::remove_file(&exe);
        if cr.success {
            let _ = std::fs::remove_file(&src_path);
        }
    }
    BatchOutcome { units: outcomes, stray, crashed }
}

fn parse_run_output(stdout: &str, ix: &[usize], outcomes: &mut [UnitOutcome]) {
    for line in stdout.lines() {
        let mut it = line.splitn(3, ' ');
        let tag = it.next().unwrap_or("");
        let idx: Option<usize> = it.next().and_then(|s| s.parse().ok());
        let rest = it.next().unwrap_or("");
        let Some(local) = idx else { continue };
        if local >= ix.len() {
            continue;
        }
        let o = &mut outcomes[ix[local]];
        match tag {
            "F" => o.fails.push(rest.to_string()),
            "T" => {
                o.ran = true;
                for kv in rest.split_whitespace() {
                    if let Some((k, v)) = kv.split_once('=') {
                        let n: u64 = v.parse().unwrap_or(0);
                        match k {
                            "checks" => o.checks = n,
                            "fails" => o.fail_count = n,
                            _ => o.tallies.push((k.to_string(), n)),
                        }
                    }
                }
            },
            _ => {},
        }
    }
}

fn run_units(exe: &Path, ix: &[usize], units: &[Unit], outcomes: &mut [UnitOutcome]) {
    let r = run_exe(exe, None, 120);
    parse_run_output(&r.stdout, ix, outcomes);
    let all_done = ix.iter().all(|i| !units[*i].has_run || outcomes[*i].ran);
    if r.ok && all_done {
        return;
    }
    // the process died (abort, signal, panic) or hung: rerun unit by unit
    for (local, gi) in ix.iter().enumerate() {
        if !units[*gi].has_run || outcomes[*gi].ran {
            continue;
        }
        let r1 = run_exe(exe, Some(local), 60);
        outcomes[*gi].fails.clear();
        parse_run_output(&r1.stdout, ix, outcomes);
        if !outcomes[*gi].ran {
            let why = if r1.timed_out {
                "timed out".to_string()
            } else if let Some(s) = r1.signal {
                format!("killed by signal {s}: {}", r1.stderr.lines().last().unwrap_or(""))
            } else {
                format!("exited abnormally: {}", r1.stderr.lines().rev().take(3).collect::<Vec<_>>().join(" / "))
            };
            outcomes[*gi].died = Some(why);
        }
    }
}

/// Compile units as modules of one `#![no_std]` library crate (metadata only). Returns per-unit
/// error/warning lists; bisects like `eval_batch`.
pub fn eval_nostd_lib(tag: &str, units: &[Unit], so: &Path) -> Vec<UnitOutcome> {
    let dir = work_dir(tag);
    let mut outcomes: Vec<UnitOutcome> = vec![UnitOutcome::default(); units.len()];
    let mut todo: Vec<Vec<usize>> = vec![(0..units.len()).collect()];
    let mut serial = 0;
    while let Some(ix) = todo.pop() {
        if ix.is_empty() {
            continue;
        }
        serial += 1;
        let mut src = String::from("#![no_std]\n");
        let mut ranges = Vec::new();
        for (k, i) in ix.iter().enumerate() {
            let start = src.lines().count() + 1;
            src.push_str(&format!("#[allow(dead_code, non_camel_case_types, non_snake_case, non_upper_case_globals, unused_imports)]\npub mod t{k} {{\n{}\n}}\n", units[*i].body));
            ranges.push((start, src.lines().count()));
        }
        let p = dir.join(format!("n{serial}.rs"));
        std::fs::write(&p, &src).expect("write");
        let out = dir.join(format!("libn{serial}.rmeta"));
        let cr = rustc_compile(&p, &out, so, &["--crate-type", "lib", "--emit=metadata"]);
        let mut bad = vec![false; ix.len()];
        let mut local: Vec<(usize, Diag)> = Vec::new();
        for dg in &cr.diags {
            if dg.level != "error" && dg.level != "warning" {
                continue;
            }
            if let Some(u) = ranges.iter().position(|(a, b)| dg.line >= *a && dg.line <= *b) {
                if dg.level == "error" {
                    bad[u] = true;
                }
                local.push((u, dg.clone()));
            }
        }
        if cr.success || ix.len() == 1 {
            for (u, dg) in local {
                let o = &mut outcomes[ix[u]];
                let text = format!("{}{}: {}", dg.level, dg.code.as_ref().map(|c| format!("[{c}]")).unwrap_or_default(), dg.message);
                if dg.level == "error" {
                    o.compile_errors.push(text);
                } else {
                    o.warnings.push(text);
                }
            }
            if !cr.success && outcomes[ix[0]].compile_errors.is_empty() {
                outcomes[ix[0]].compile_errors.push(format!("compilation failed: {:?} {:?}", cr.crashed, cr.diags.iter().map(|d| d.message.clone()).collect::<Vec<_>>()));
            }
        } else {
            let b: Vec<usize> = ix.iter().enumerate().filter(|(k, _)| bad[*k]).map(|(_, i)| *i).collect();
            let g: Vec<usize> = ix.iter().enumerate().filter(|(k, _)| !bad[*k]).map(|(_, i)| *i).collect();
            if b.is_empty() {
                let mid = ix.len() / 2;
                todo.push(ix[..mid].to_vec());
                todo.push(ix[mid..].to_vec());
            } else {
                for x in b {
                    todo.push(vec![x]);
                }
                todo.push(g);
            }
        }
        let _ = std::fs::remove_file(&p);
        let _ = std::fs::remove_file(&out);
    }
    outcomes
}

/// Run a batch program under Miri (thorough tiers). Returns (stdout, stderr, success).
pub fn miri_run(tag: &str, units: &[Unit]) -> Result<(String, String, bool), Inconclusive> {
    let dir = work_dir(tag);
    let _ = std::fs::create_dir_all(dir.join("src"));
    let _ = std::fs::create_dir_all(dir.join(".cargo"));
    for f in ["Cargo.toml", "Cargo.lock", ".cargo/config.toml"] {
        std::fs::copy(Path::new(VERIF).join("miri").join(f), dir.join(f)).map_err(|e| Inconclusive(format!("miri template: {e}")))?;
    }
    let prog = render_program(units, "");
    std::fs::write(dir.join("src").join("main.rs"), &prog.src).map_err(|e| Inconclusive(format!("write: {e}")))?;
    let out = Command::new("cargo")
        .args(["+nightly", "miri", "run", "--quiet"])
        .env("CARGO_NET_OFFLINE", "true")
        .env("MIRIFLAGS", "-Zmiri-disable-isolation")
        .env("CARGO_TARGET_DIR", Path::new(VERIF).join("target").join(format!("miri-{}", tag.replace('/', "_"))))
        .env_remove("RUSTFLAGS")
        .current_dir(&dir)
        .output()
        .map_err(|e| Inconclusive(format!("cargo +nightly miri is not available: {e}")))?;
    Ok((String::from_utf8_lossy(&out.stdout).to_string(), String::from_utf8_lossy(&out.stderr).to_string(), out.status.success()))
}
