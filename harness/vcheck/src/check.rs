//! Shared driver: seeds, case generation (proptest value trees over choice streams), batching,
//! shrinking, replay files, known findings, evidence.
#![allow(dead_code)]

use std::collections::{BTreeMap, BTreeSet};
use std::path::{Path, PathBuf};
use std::time::Instant;

use proptest::prelude::*;
use proptest::strategy::ValueTree;
use proptest::test_runner::{Config, RngAlgorithm, RngSeed, TestRng, TestRunner};
use rayon::prelude::*;
use serde_json::{json, Value};

use crate::engine::{self, BatchOutcome, Unit, UnitOutcome};

pub const EXIT_OK: i32 = 0;
pub const EXIT_VIOLATION: i32 = 1;
pub const EXIT_INCONCLUSIVE: i32 = 2;

#[derive(Clone, Debug)]
pub struct Ctx {
    pub prop: String,
    pub tier: String,
    pub seed: u64,
    pub replay: Option<PathBuf>,
    pub start: Instant,
}

impl Ctx {
    pub fn thorough(&self) -> bool {
        self.tier == "thorough"
    }
    pub fn scale(&self, quick: usize, thorough: usize) -> usize {
        let base = if self.thorough() { thorough } else { quick };
        match std::env::var("VERIF_SCALE").ok().and_then(|s| s.parse::<f64>().ok()) {
            Some(f) => ((base as f64) * f).max(1.0) as usize,
            None => base,
        }
    }
}

pub fn runner(seed: u64, salt: u64) -> TestRunner {
    let mut bytes = [0u8; 32];
    bytes[..8].copy_from_slice(&seed.to_le_bytes());
    bytes[8..16].copy_from_slice(&salt.to_le_bytes());
    bytes[16..24].copy_from_slice(&0x9e3779b97f4a7c15u64.to_le_bytes());
    let rng = TestRng::from_seed(RngAlgorithm::ChaCha, &bytes);
    let cfg = Config { failure_persistence: None, rng_seed: RngSeed::Fixed(seed), ..Config::default() };
    TestRunner::new_with_rng(cfg, rng)
}

pub type DnaTree = Box<dyn ValueTree<Value = Vec<u16>>>;

pub fn dna_strategy(max_len: usize) -> BoxedStrategy<Vec<u16>> {
    // mixture: short/sparse streams (small specs) and long dense ones
    prop_oneof![
        2 => proptest::collection::vec(any::<u16>(), 0..max_len / 4 + 1),
        5 => proptest::collection::vec(any::<u16>(), max_len / 2..max_len + 1),
        2 => proptest::collection::vec(prop_oneof![Just(0u16), any::<u16>(), 60000u16..=65535u16], max_len / 2..max_len + 1),
    ]
    .boxed()
}

/// draw `n` value trees (kept so that failures can be shrunk with proptest's own shrinker)
pub fn draw(seed: u64, salt: u64, n: usize, max_len: usize) -> Vec<DnaTree> {
    let mut r = runner(seed, salt);
    let s = dna_strategy(max_len);
    (0..n).map(|_| Box::new(s.new_tree(&mut r).expect("dna tree")) as DnaTree).collect()
}

/// the same values as `draw(..)` yields, without keeping the value trees (a tree costs ~150 kB; lanes that never shrink
/// through proptest - C17's mutants are reported as they are - only need the values)
pub fn draw_values(seed: u64, salt: u64, n: usize, max_len: usize) -> Vec<Vec<u16>> {
    let mut r = runner(seed, salt);
    let s = dna_strategy(max_len);
    (0..n).map(|_| s.new_tree(&mut r).expect("dna tree").current()).collect()
}

/// proptest-driven shrinking with an arbitrary (possibly expensive) failure predicate
pub fn shrink(tree: &mut DnaTree, max_steps: usize, mut still_fails: impl FnMut(&Vec<u16>) -> bool) -> (Vec<u16>, usize) {
    let mut best = tree.current();
    let mut steps = 0;
    while steps < max_steps {
        if !tree.simplify() {
            break;
        }
        loop {
            steps += 1;
            let cur = tree.current();
            if still_fails(&cur) {
                best = cur;
                break;
            }
            if steps >= max_steps || !tree.complicate() {
                break;
            }
        }
    }
    (best, steps)
}

// ------------------------------------------------------------------------------------------ known findings

#[derive(Clone, Debug)]
pub struct Known {
    pub id: String,
    pub property: String,
    pub status: String,
    pub signature: String,
    pub what: String,
}

pub fn load_known() -> Vec<Known> {
    let p = Path::new(engine::VERIF).join("known_findings.json");
    let Ok(s) = std::fs::read_to_string(&p) else { return vec![] };
    let Ok(v) = serde_json::from_str::<Value>(&s) else { return vec![] };
    v["findings"]
        .as_array()
        .map(|a| {
            a.iter()
                .map(|e| Known {
                    id: e["id"].as_str().unwrap_or("").into(),
                    property: e["property"].as_str().unwrap_or("").into(),
                    status: e["status"].as_str().unwrap_or("").into(),
                    signature: e["signature"].as_str().unwrap_or("").into(),
                    what: e["what"].as_str().unwrap_or("").into(),
                })
                .collect()
        })
        .unwrap_or_default()
}

// ------------------------------------------------------------------------------------------ results / evidence

#[derive(Clone, Debug)]
pub struct Failure {
    pub msg: String,
    /// what to save for replay
    pub dna: Vec<u16>,
    pub variant: String,
    pub source: String,
    pub unit_body: Option<String>,
}

pub struct Report {
    pub ctx: Ctx,
    pub evaluations: u64,
    pub nontrivial: BTreeSet<u64>,
    pub classes: BTreeMap<String, u64>,
    pub counters: BTreeMap<String, u64>,
    pub samples: Vec<Value>,
    pub violations: Vec<Failure>,
    pub known_hits: BTreeMap<String, (String, u64)>,
    pub inconclusive: Vec<String>,
    pub rule: String,
    pub assumptions: Vec<String>,
    pub exhaustive: bool,
    pub extra: BTreeMap<String, Value>,
}

impl Report {
    pub fn new(ctx: &Ctx, rule: &str) -> Report {
        Report {
            ctx: ctx.clone(),
            evaluations: 0,
            nontrivial: BTreeSet::new(),
            classes: BTreeMap::new(),
            counters: BTreeMap::new(),
            samples: Vec::new(),
            violations: Vec::new(),
            known_hits: BTreeMap::new(),
            inconclusive: Vec::new(),
            rule: rule.to_string(),
            assumptions: Vec::new(),
            exhaustive: false,
            extra: BTreeMap::new(),
        }
    }
    pub fn class(&mut self, c: &str) {
        *self.classes.entry(c.to_string()).or_insert(0) += 1;
    }
    pub fn count(&mut self, c: &str, n: u64) {
        *self.counters.entry(c.to_string()).or_insert(0) += n;
    }
    pub fn sample(&mut self, v: Value) {
        if self.samples.len() < 5 {
            self.samples.push(v);
        }
    }
    pub fn known(&mut self, id: &str, what: &str) {
        let e = self.known_hits.entry(id.to_string()).or_insert((what.to_string(), 0));
        e.1 += 1;
    }

    /// write replay files + evidence, print the verdict lines, return the exit code
    pub fn finish(mut self) -> i32 {
        let prop = self.ctx.prop.clone();
        let mut code = EXIT_OK;
        for (id, (what, n)) in &self.known_hits {
            println!("KNOWN-FINDING: property={prop} {id}: {what} ({n} generated cases hit it)");
        }
        let mut seen_msgs: BTreeSet<String> = BTreeSet::new();
        // a compilation stopped by the CPU-time limit is a verdict only for the termination property (C17); for every
        // other check it means "could not be evaluated"
        // so does a machine that ran out of disk space: tool trouble is never a verdict, for any property
        {
            let is_c17 = prop == "C17";
            let (timeouts, rest): (Vec<Failure>, Vec<Failure>) = std::mem::take(&mut self.violations).into_iter().partition(|f| {
                (!is_c17 && f.msg.contains("CPU-LIMIT")) || f.msg.contains("No space left on device") || f.msg.contains("os error 28") || f.msg.contains("Disk quota exceeded")
            });
            self.violations = rest;
            for f in timeouts.iter().take(3) {
                self.inconclusive.push(format!("not evaluated: {}", f.msg.chars().take(300).collect::<String>()));
            }
        }
        let vio = std::mem::take(&mut self.violations);
        for f in &vio {
            let dir = Path::new(engine::VERIF).join("replays").join(&prop);
            let _ = std::fs::create_dir_all(&dir);
            let h = crate::spec::fnv64(&format!("{}{}{:?}", f.source, f.variant, f.dna));
            let path = dir.join(format!("{:016x}.json", h));
            let doc = json!({
                "property": prop, "tier": self.ctx.tier, "seed": self.ctx.seed, "variant": f.variant,
                "dna": f.dna, "message": f.msg, "source": f.source, "unit_body": f.unit_body,
            });
            let _ = std::fs::write(&path, serde_json::to_string_pretty(&doc).unwrap());
            let key: String = f.msg.chars().take(160).collect();
            if seen_msgs.insert(key) || seen_msgs.len() < 10 {
                println!("VIOLATION property={} replay={}", prop, path.display());
                println!("  detail: {}", f.msg.chars().take(600).collect::<String>().replace('\n', "\n    "));
            }
            code = EXIT_VIOLATION;
        }
        if code == EXIT_OK && !self.inconclusive.is_empty() {
            for m in self.inconclusive.iter().take(10) {
                println!("INCONCLUSIVE property={prop}: {}", m.chars().take(800).collect::<String>());
            }
            code = EXIT_INCONCLUSIVE;
        }
        let wall = self.ctx.start.elapsed().as_secs_f64();
        let mut coverage = serde_json::Map::new();
        coverage.insert("evaluations".into(), json!(self.evaluations));
        coverage.insert("distinct_nontrivial".into(), json!(self.nontrivial.len()));
        coverage.insert("rule".into(), json!(self.rule));
        if self.samples.is_empty() {
            self.samples.push(json!("no case was evaluated"));
        }
        coverage.insert("samples".into(), json!(self.samples));
        coverage.insert("classes".into(), json!(self.classes));
        coverage.insert("counters".into(), json!(self.counters));
        coverage.insert("known_finding_hits".into(), json!(self.known_hits.iter().map(|(k, v)| (k.clone(), v.1)).collect::<BTreeMap<_, _>>()));
        if self.exhaustive {
            coverage.insert("exhaustive".into(), json!(true));
        }
        for (k, v) in &self.extra {
            coverage.insert(k.clone(), v.clone());
        }
        let ev = json!({
            "property_id": prop,
            "tier": if self.ctx.thorough() { "thorough" } else { "quick" },
            "seed": self.ctx.seed,
            "level": "exploration",
            "coverage": Value::Object(coverage),
            "assumptions": self.assumptions,
            "wall_s": (wall * 100.0).round() / 100.0,
            "violations": vio.len(),
            "exit_code": code,
        });
        if self.ctx.replay.is_none() {
            let dir = Path::new(engine::VERIF).join("evidence");
            let _ = std::fs::create_dir_all(&dir);
            let _ = std::fs::write(dir.join(format!("{prop}.json")), serde_json::to_string_pretty(&ev).unwrap());
        }
        println!(
            "{} property={} tier={} seed={} evaluations={} distinct_nontrivial={} violations={} known={} wall={:.1}s",
            match code {
                EXIT_OK => "PASS",
                EXIT_VIOLATION => "FAIL",
                _ => "INCONCLUSIVE",
            },
            prop,
            self.ctx.tier,
            self.ctx.seed,
            self.evaluations,
            self.nontrivial.len(),
            vio.len(),
            self.known_hits.len(),
            wall
        );
        code
    }
}

// ------------------------------------------------------------------------------------------ Engine R batch driver

/// what a property contributes for one generated case that goes through real rustc
pub struct RCase {
    pub unit: Unit,
    pub hash: u64,
    pub nontrivial: bool,
    pub classes: Vec<String>,
    pub sample: String,
    /// id of an open known finding whose *spec predicate* matches (routed to the known lane)
    pub known_pre: Option<String>,
    /// expectation: must compile warning-free and every runtime check must pass
    pub expect_compile: bool,
}

pub enum RVerdict {
    Pass,
    Fail(String),
}

/// default judgement: no errors, no warnings, ran to completion with zero failed checks
pub fn judge_default(o: &UnitOutcome, has_run: bool) -> RVerdict {
    if let Some(d) = &o.died {
        return RVerdict::Fail(format!("died: {d}"));
    }
    if !o.compile_errors.is_empty() {
        return RVerdict::Fail(format!("does not compile: {}", o.compile_errors.join(" ; ")));
    }
    if !o.warnings.is_empty() {
        return RVerdict::Fail(format!("compiles with warnings: {}", o.warnings.join(" ; ")));
    }
    if has_run {
        if !o.ran {
            return RVerdict::Fail("observer did not run to completion".into());
        }
        if o.fail_count > 0 {
            return RVerdict::Fail(format!("{} of {} runtime checks failed: {}", o.fail_count, o.checks, o.fails.join(" ; ")));
        }
    }
    RVerdict::Pass
}

/// evaluate units in parallel batches
pub fn eval_units(tag: &str, units: &[Unit], so: &Path, batch: usize, run: bool) -> (Vec<UnitOutcome>, Vec<String>) {
    let chunks: Vec<(usize, &[Unit])> = units.chunks(batch.max(1)).enumerate().collect();
    let results: Vec<(usize, BatchOutcome)> = chunks
        .par_iter()
        .map(|(ci, ch)| (*ci, engine::eval_batch(&format!("{tag}/c{ci}"), ch, so, "", run)))
        .collect();
    let mut out: Vec<UnitOutcome> = Vec::with_capacity(units.len());
    let mut stray = Vec::new();
    let mut sorted = results;
    sorted.sort_by_key(|(ci, _)| *ci);
    for (_, b) in sorted {
        out.extend(b.units);
        stray.extend(b.stray);
    }
    (out, stray)
}

pub fn clean_work(tag: &str) {
    let p = Path::new(engine::VERIF).join("work").join(tag);
    let _ = std::fs::remove_dir_all(p);
}

/// read a replay file
pub fn read_replay(p: &Path) -> Option<Value> {
    let s = std::fs::read_to_string(p).ok()?;
    serde_json::from_str(&s).ok()
}

pub fn dna_of(v: &Value) -> Vec<u16> {
    v["dna"].as_array().map(|a| a.iter().map(|x| x.as_u64().unwrap_or(0) as u16).collect()).unwrap_or_default()
}

/// Replay of a saved Engine-R case: recompile (and rerun) exactly the saved unit against the
/// current /repo, with no generator and no known-finding allowances.
pub fn replay_unit(ctx: &Ctx) -> i32 {
    let path = ctx.replay.clone().unwrap();
    let Some(v) = read_replay(&path) else {
        println!("INCONCLUSIVE property={}: cannot read replay file {}", ctx.prop, path.display());
        return EXIT_INCONCLUSIVE;
    };
    if v["variant"].as_str() == Some("empty-ok") {
        // accepted, but nothing generated: re-expand the saved request
        let src = v["source"].as_str().unwrap_or("");
        return match engine::expand_src(src) {
            engine::Expansion::Ok(t) if t.trim().is_empty() => {
                println!("VIOLATION property={} replay={}", ctx.prop, path.display());
                println!("  detail: the request is accepted and nothing is generated");
                EXIT_VIOLATION
            },
            _ => {
                println!("PASS property={} replay={} (items or a diagnostic)", ctx.prop, path.display());
                EXIT_OK
            },
        };
    }
    let Some(body) = v["unit_body"].as_str() else {
        println!("INCONCLUSIVE property={}: replay file has no unit_body", ctx.prop);
        return EXIT_INCONCLUSIVE;
    };
    let so = match engine::build_proc_macro() {
        Ok(s) => s,
        Err(e) => {
            println!("INCONCLUSIVE property={}: {}", ctx.prop, e.0);
            return EXIT_INCONCLUSIVE;
        },
    };
    let has_run = body.contains("pub fn run(o: &mut Out)");
    let unit = Unit { body: body.to_string(), has_run };
    let tag = format!("replay-{}-{}", ctx.prop, std::process::id());
    let out = engine::eval_batch(&tag, &[unit], &so, "", has_run);
    clean_work(&tag);
    match judge_default(&out.units[0], has_run) {
        RVerdict::Pass => {
            println!("PASS property={} replay={} (no longer fails)", ctx.prop, path.display());
            EXIT_OK
        },
        RVerdict::Fail(m) => {
            println!("VIOLATION property={} replay={}", ctx.prop, path.display());
            println!("  detail: {}", m.chars().take(800).collect::<String>());
            EXIT_VIOLATION
        },
    }
}

/// Replay for C17: compile the saved unit; a violation only if the macro panics / rustc crashes.
pub fn replay_unit_panic(ctx: &Ctx, path: &Path) -> i32 {
    let Some(v) = read_replay(path) else {
        println!("INCONCLUSIVE property={}: cannot read replay file {}", ctx.prop, path.display());
        return EXIT_INCONCLUSIVE;
    };
    if v["variant"].as_str() == Some("empty-ok") {
        // accepted, but nothing generated: re-expand the saved request
        let src = v["source"].as_str().unwrap_or("");
        return match engine::expand_src(src) {
            engine::Expansion::Ok(t) if t.trim().is_empty() => {
                println!("VIOLATION property={} replay={}", ctx.prop, path.display());
                println!("  detail: the request is accepted and nothing is generated");
                EXIT_VIOLATION
            },
            _ => {
                println!("PASS property={} replay={} (items or a diagnostic)", ctx.prop, path.display());
                EXIT_OK
            },
        };
    }
    let Some(body) = v["unit_body"].as_str() else {
        println!("INCONCLUSIVE property={}: replay file has no unit_body", ctx.prop);
        return EXIT_INCONCLUSIVE;
    };
    let so = match engine::build_proc_macro() {
        Ok(s) => s,
        Err(e) => {
            println!("INCONCLUSIVE property={}: {}", ctx.prop, e.0);
            return EXIT_INCONCLUSIVE;
        },
    };
    let tag = format!("replay-{}-{}", ctx.prop, std::process::id());
    let out = engine::eval_batch(&tag, &[Unit { body: body.to_string(), has_run: false }], &so, "", false);
    clean_work(&tag);
    let o = &out.units[0];
    if o.proc_macro_panic || o.died.is_some() {
        println!("VIOLATION property={} replay={}", ctx.prop, path.display());
        println!("  detail: {:?} {:?}", o.compile_errors.iter().take(2).collect::<Vec<_>>(), o.died);
        EXIT_VIOLATION
    } else {
        println!("PASS property={} replay={} (no panic)", ctx.prop, path.display());
        EXIT_OK
    }
}
