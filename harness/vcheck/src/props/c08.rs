//! C08 — Default builds exactly the designated value.
use crate::check::Ctx;
use crate::dna::Dna;
use crate::gen::GenCfg;
use crate::props::behave::*;
use crate::spec::*;

fn cfg(d: &mut Dna) -> GenCfg {
    let mut c = GenCfg::behaviour(&[Tr::Default], &[Tr::Debug, Tr::Clone, Tr::PartialEq]);
    c.kinds = vec![Kind::Struct, Kind::Enum, Kind::Union];
    c.trait_pct = 15;
    c.attr_pct = 55;
    c.max_variants = 5;
    c.partial_types = false;
    c.type_expr = true;
    c.min_variants = 1;
    let _ = d;
    c
}

/// index of the default variant (enum) / default field (union)
fn designated(s: &TypeSpec) -> usize {
    match s.kind {
        Kind::Enum => s.variants.iter().position(|v| v.attrs.iter().any(|a| a.tr == Tr::Default)).unwrap_or(0),
        Kind::Union => s.variants[0].fields.iter().position(|f| f.attrs.iter().any(|a| a.tr == Tr::Default)).unwrap_or(0),
        Kind::Struct => 0,
    }
}

pub fn render(s: &TypeSpec) -> Option<Rendered> {
    if s.variants.is_empty() {
        return None;
    }
    let ty = s.inst_ty();
    let ta = s.attr(Tr::Default)?;
    let type_expr = ta.expr().map(|e| e.to_string());
    let new_fn = ta.new_fn();
    let mut o = String::new();
    let des = designated(s);
    if s.kind == Kind::Union {
        let f = &s.variants[0].fields[des];
        let fname = f.name.as_ref().unwrap();
        let exp = match (&type_expr, &f.default_expect) {
            (Some(_), _) => return None,
            (None, Some(e)) => e.clone(),
            (None, None) => format!("<{} as ::core::default::Default>::default()", f.ty.inst),
        };
        o.push_str("pub fn run(o: &mut Out) {\n");
        o.push_str(&format!("    let d: {ty} = <{ty} as ::core::default::Default>::default();\n"));
        o.push_str(&format!("    let got: {} = unsafe {{ d.{fname} }};\n    let exp: {} = {exp};\n", f.ty.inst, f.ty.inst));
        o.push_str("    o.check(format!(\"{:?}\", got) == format!(\"{:?}\", exp), || format!(\"the designated union field holds {:?}, expected {:?}\", got, exp));\n    o.tally(\"defaults\", 1);\n");
        if new_fn {
            o.push_str(&format!("    let n: {ty} = {}::new();\n    let got2: {} = unsafe {{ n.{fname} }};\n", s.name, f.ty.inst));
            o.push_str("    o.check(format!(\"{:?}\", got2) == format!(\"{:?}\", exp), || format!(\"new() holds {:?}, default() {:?}\", got2, exp));\n");
        }
        o.push_str("}\n");
        let nt = des > 0 || f.default_expect.is_some();
        let mut classes = vec!["union".to_string()];
        if des > 0 {
            classes.push("marker_not_first".into());
        }
        return Some(Rendered { observer: o, nontrivial: nt, need_tallies: vec!["defaults"], classes });
    }
    // comparison of two values field by field through their Debug text (bit-exact for floats via to_bits is implied by {:?} round-trip)
    o.push_str(&format!("pub fn same(a: &{ty}, b: &{ty}) -> ::core::result::Result<(), ::std::string::String> {{\n"));
    o.push_str(&match_same_variant(
        s,
        |vi| {
            let v = &s.variants[vi];
            let mut code = touch_all(v);
            for i in 0..v.fields.len() {
                code.push_str(&format!(
                    "if format!(\"{{:?}}\", a{i}) != format!(\"{{:?}}\", b{i}) {{ return Err(format!(\"variant {vi} field {i}: {{:?}} instead of {{:?}}\", a{i}, b{i})); }} "
                ));
            }
            code.push_str("Ok(())");
            code
        },
        "Err(format!(\"variant {} instead of {}\", variant_of(a), variant_of(b)))",
    ));
    o.push_str("}\n");
    // the expected value, written out from the model
    let expected_expr = match &type_expr {
        // (a bare literal is converted by the user's From impl, whose result the generator recorded)
        Some(e) => s.type_expr_expect.clone().unwrap_or_else(|| e.clone()),
        None => {
            let v = &s.variants[des];
            let path = if s.kind == Kind::Enum { format!("{}::{}", s.name, v.name) } else { s.name.clone() };
            let field_exp = |f: &FieldSpec| match &f.default_expect {
                Some(e) => e.clone(),
                None => format!("<{} as ::core::default::Default>::default()", f.ty.inst),
            };
            match v.shape {
                Shape::Unit => path,
                Shape::Named => format!("{} {{ {} }}", path, v.fields.iter().map(|f| format!("{}: {}", f.name.as_ref().unwrap(), field_exp(f))).collect::<Vec<_>>().join(", ")),
                Shape::Tuple => format!("{}({})", path, v.fields.iter().map(field_exp).collect::<Vec<_>>().join(", ")),
            }
        },
    };
    o.push_str("pub fn run(o: &mut Out) {\n");
    o.push_str(&format!("    let d: {ty} = <{ty} as ::core::default::Default>::default();\n    let exp: {ty} = {expected_expr};\n"));
    o.push_str("    let r = same(&d, &exp);\n    o.check(r.is_ok(), || format!(\"default() is not the designated value: {}\", r.clone().unwrap_err()));\n    o.tally(\"defaults\", 1);\n");
    if new_fn {
        o.push_str(&format!("    let n: {ty} = <{ty}>::new();\n    let r2 = same(&n, &exp);\n    o.check(r2.is_ok(), || format!(\"new() differs from default(): {{}}\", r2.clone().unwrap_err()));\n    o.tally(\"new_fns\", 1);\n"));
    }
    o.push_str("}\n");
    let needs_into = s.all_fields().any(|f| f.default_expect.is_some() && f.attr_for(Tr::Default).and_then(|a| a.expr()).map(|e| !f.default_expect.as_deref().unwrap_or("").starts_with(e)).unwrap_or(false));
    let mut classes = vec![];
    if des > 0 {
        classes.push("marker_not_first".to_string());
    }
    if needs_into {
        classes.push("expression_needs_conversion".to_string());
    }
    if type_expr.is_some() {
        classes.push("type_level_expression".to_string());
    }
    if new_fn {
        classes.push("new".to_string());
    }
    if s.all_fields().any(|f| f.default_expect.is_some()) {
        classes.push("field_expression".to_string());
    }
    let nt = des > 0 || needs_into || (type_expr.is_some() && new_fn) || s.all_fields().any(|f| f.default_expect.is_some());
    Some(Rendered { observer: o, nontrivial: nt, need_tallies: vec!["defaults"], classes })
}

pub fn run(ctx: &Ctx) -> i32 {
    crate::props::behave::run(ctx, &behaviour())
}

pub fn behaviour() -> Behaviour {
    Behaviour {
        prop: "C08",
        rule: "structs, enums and unions with Default educed: every position of the variant / union-field marker, per-field expressions in every spelling \
               (Default = lit, Default(expression = e), expr = e, expression(e), expr(e)) over literal kinds (int, float, bool, char, str, byte, byte string, \
               suffixed, negative, compound expressions) x field types (natural type, an alias of it, or a type reached through Into), type-level expression, `new`; \
               default() (and new()) is compared field by field with the value the model designates (the field's expression converted as documented, else the \
               field type's own Default::default()); non-trivial = marker not on the first position, or a field expression, or a type-level expression with new",
        salt: 0xC08,
        cfg,
        adjust: no_adjust,
        render,
        quick: 7000,
        thorough: 20000,
        batch: 25,
        assumptions: &["a suffixed numeric literal on a primitive numeric field of another type is deliberately not generated (see DESIGN.md)"],
        miri_units: 0,
        extra: None,
    }
}
