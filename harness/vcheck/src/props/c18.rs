//! C18 — every subset of trait features builds and behaves like the full build.
use std::io::Write;
use std::path::PathBuf;
use std::process::{Command, Stdio};

use rayon::prelude::*;
use serde_json::json;

use crate::check::{self, Ctx, Failure, Report};
use crate::dna::Dna;
use crate::engine::{self, Expansion};
use crate::gen::{self, GenCfg};
use crate::spec::*;

fn names(mask: u16) -> Vec<&'static str> {
    ALL_TRAITS.iter().filter(|t| mask & t.bit() != 0).map(|t| t.name()).collect()
}

fn worker_dir(kind: &str) -> PathBuf {
    let w = rayon::current_thread_index().unwrap_or(0);
    PathBuf::from(format!("/verif/target/feat-{kind}-{w}"))
}

/// What one subset leaves behind in a worker directory: the subject's own artifacts. The dependencies stay cached; without
/// this the 4096 + 4095 subsets of the thorough tier pile up well over 100 GB.
fn sweep_worker_dir(dir: &std::path::Path) {
    for sub in ["debug/deps", "debug/.fingerprint", "debug/incremental", "debug"] {
        let Ok(rd) = std::fs::read_dir(dir.join(sub)) else { continue };
        for e in rd.flatten() {
            let name = e.file_name().to_string_lossy().to_string();
            let ours = ["educe", "libeduce", "educe_inproc", "libeduce_inproc", "featdrv", "libfeatdrv"].iter().any(|p| name == *p || name.starts_with(&format!("{p}-")) || name.starts_with(&format!("{p}.")));
            if !ours {
                continue;
            }
            let p = e.path();
            if p.is_dir() {
                let _ = std::fs::remove_dir_all(&p);
            } else {
                let _ = std::fs::remove_file(&p);
            }
        }
    }
}

/// does the subset split a documented pair or enable exactly one user of a shared helper?
const FULL_BIT: u16 = 0x1000;

fn interesting(mask: u16) -> bool {
    if mask & FULL_BIT != 0 {
        return true;
    }
    let h = |t: Tr| mask & t.bit() != 0;
    h(Tr::Copy) != h(Tr::Clone)
        || h(Tr::Eq) != h(Tr::PartialEq)
        || h(Tr::Ord) != h(Tr::PartialOrd)
        || h(Tr::Deref) != h(Tr::DerefMut)
        || [Tr::PartialOrd, Tr::Ord, Tr::Into].iter().filter(|t| h(**t)).count() == 1
        || [Tr::Debug, Tr::PartialEq, Tr::Hash].iter().filter(|t| h(**t)).count() == 1
        || mask.count_ones() == 1
}

/// (ok, message)
fn build_half(mask: u16) -> Result<(), String> {
    // bit 12 selects the crate's one non-trait feature, `full` (= syn/full): it must not count as a trait feature
    let with_full = mask & FULL_BIT != 0;
    let mask = mask & 0x0FFF;
    let mut fl: Vec<&'static str> = names(mask);
    if with_full {
        fl.push("full");
    }
    let feats = fl.join(",");
    let dir = worker_dir("b");
    let mut cmd = Command::new("cargo");
    cmd.args(["check", "--offline", "--manifest-path", "/repo/Cargo.toml", "--no-default-features", "--message-format=short", "--target-dir"]).arg(&dir);
    if !feats.is_empty() {
        cmd.args(["--features", &feats]);
    }
    cmd.env("CARGO_NET_OFFLINE", "true").env_remove("RUSTFLAGS").env_remove("CARGO_ENCODED_RUSTFLAGS").env_remove("CARGO_BUILD_RUSTFLAGS").current_dir("/verif");
    let out = cmd.output().map_err(|e| format!("cannot run cargo: {e}"))?;
    let stderr = String::from_utf8_lossy(&out.stderr).to_string();
    sweep_worker_dir(&dir);
    if mask == 0 {
        if out.status.success() {
            return Err(format!("the crate builds with no trait feature enabled (features [{feats}])"));
        }
        if !stderr.contains("at least one of the trait features must be enabled") {
            return Err(format!("no trait feature: the build fails, but not with the explicit message: {}", stderr.chars().take(600).collect::<String>()));
        }
        return Ok(());
    }
    if !out.status.success() {
        return Err(format!("features [{feats}] do not build: {}", stderr.lines().filter(|l| l.contains("error")).take(6).collect::<Vec<_>>().join(" | ")));
    }
    let warns: Vec<&str> = stderr.lines().filter(|l| l.contains("warning:") || l.contains(": warning")).filter(|l| !l.contains("generated") || true).collect();
    if !warns.is_empty() {
        return Err(format!("features [{feats}] build with warnings: {}", warns.iter().take(6).cloned().collect::<Vec<_>>().join(" | ")));
    }
    Ok(())
}

fn escape(s: &str) -> String {
    s.replace('\\', "\\\\").replace('\n', "\\n")
}

/// requests for a subset: (source, kind) where kind = "enabled" | "names-disabled:<trait>"
fn corpus(mask: u16, seed: u64, n: usize) -> Vec<(String, String)> {
    let mut out = Vec::new();
    let enabled: Vec<Tr> = ALL_TRAITS.iter().copied().filter(|t| mask & t.bit() != 0).collect();
    let disabled: Vec<Tr> = ALL_TRAITS.iter().copied().filter(|t| mask & t.bit() == 0).collect();
    let trees = check::draw(seed, 0xC18 ^ mask as u64, n, 420);
    let mut cfg = GenCfg::full();
    cfg.pool = enabled.clone();
    cfg.trait_pct = 60;
    for t in trees {
        let dna = t.current();
        let mut d = Dna::new(&dna);
        let b = gen::build(&mut d, &cfg);
        if b.spec.traits.iter().any(|a| mask & a.tr.bit() == 0) {
            continue;
        }
        out.push((b.spec.render_def_with("", true), "enabled".to_string()));
        // the same (valid, bounds and parameters included) request with one more attribute that names a disabled trait, at the
        // type, on a variant or on a field
        if !disabled.is_empty() && d.chance(40) {
            let mut spec = b.spec.clone();
            let t = *d.choose(&disabled);
            let form = match (t, d.pick(3)) {
                (Tr::Into, _) => "Into(u8)".to_string(),
                (Tr::Debug | Tr::PartialEq | Tr::PartialOrd | Tr::Ord | Tr::Hash, 1) => format!("{}(ignore)", t.name()),
                (Tr::Debug | Tr::PartialEq | Tr::PartialOrd | Tr::Ord | Tr::Hash | Tr::Clone, 2) => format!("{}(method(m))", t.name()),
                _ => t.name().to_string(),
            };
            let attr = format!("#[educe({form})]");
            let nv = spec.variants.len();
            let place = d.pick(3);
            let with_fields: Vec<usize> = (0..nv).filter(|i| !spec.variants[*i].fields.is_empty()).collect();
            if place == 0 || nv == 0 || (place == 1 && spec.kind != Kind::Enum) && with_fields.is_empty() {
                spec.raw.push(attr);
            } else if place == 1 && spec.kind == Kind::Enum {
                let vi = d.pick(nv);
                spec.variants[vi].raw.push(attr);
            } else if !with_fields.is_empty() {
                let vi = *d.choose(&with_fields);
                let nf = spec.variants[vi].fields.len();
                let fi = d.pick(nf);
                spec.variants[vi].fields[fi].raw.push(attr);
            } else {
                spec.raw.push(attr);
            }
            out.push((spec.render_def_with("", true), format!("names-disabled:{}", t.name())));
        }
    }
    // invalid requests over the enabled traits: whatever the all-features build refuses, the subset build must refuse too
    {
        let trees = check::draw(seed, 0xC18F ^ mask as u64, n / 2 + 10, 420);
        for t in trees {
            let dna = t.current();
            let mut d = Dna::new(&dna);
            let op = 1 + d.pick(crate::faults::N_OPS);
            let mut cfg2 = crate::faults::cfg_for(op, &mut d);
            cfg2.pool.retain(|t| mask & t.bit() != 0);
            if cfg2.must.iter().any(|t| mask & t.bit() == 0) || cfg2.pool.is_empty() {
                continue;
            }
            let b = gen::build(&mut d, &cfg2);
            let mut spec = b.spec;
            if spec.traits.iter().any(|a| mask & a.tr.bit() == 0) {
                continue;
            }
            if crate::faults::apply(op, &mut spec, &mut d).is_some() {
                out.push((spec.render_def_with("", true), "faulty".to_string()));
            }
        }
    }
    for t in &disabled {
        let form = match t {
            Tr::Into => "Into(u8)".to_string(),
            t => t.name().to_string(),
        };
        out.push((format!("#[educe({form})]\npub struct S {{ a: u8 }}\n"), format!("names-disabled:{}", t.name())));
        if let Some(e) = enabled.first() {
            let ef = match e {
                Tr::Into => "Into(u8)".to_string(),
                e => e.name().to_string(),
            };
            out.push((format!("#[educe({ef}, {form})]\npub struct S {{ a: u8 }}\n"), format!("names-disabled:{}", t.name())));
            out.push((format!("#[educe({ef})]\npub struct S {{ #[educe({form})] a: u8 }}\n"), format!("names-disabled:{}", t.name())));
        }
    }
    out
}

fn behaviour_half(mask: u16, seed: u64, n: usize) -> Result<(usize, usize), String> {
    let feats = names(mask).join(",");
    let dir = worker_dir("d");
    let out = Command::new("cargo")
        .args(["build", "--offline", "--quiet", "-p", "featdrv", "--no-default-features", "--features", &feats, "--target-dir"])
        .arg(&dir)
        .current_dir("/verif/harness")
        .env("CARGO_NET_OFFLINE", "true")
        .output()
        .map_err(|e| format!("cannot run cargo: {e}"))?;
    if !out.status.success() {
        return Err(format!("the in-process driver does not build with features [{feats}]: {}", String::from_utf8_lossy(&out.stderr).lines().filter(|l| l.contains("error")).take(5).collect::<Vec<_>>().join(" | ")));
    }
    let reqs = corpus(mask, seed, n);
    let mut child = Command::new(dir.join("debug").join("featdrv")).stdin(Stdio::piped()).stdout(Stdio::piped()).spawn().map_err(|e| format!("spawn featdrv: {e}"))?;
    {
        let mut stdin = child.stdin.take().unwrap();
        let payload: String = reqs.iter().map(|(s, _)| format!("{}\n", escape(s))).collect();
        std::thread::spawn(move || {
            let _ = stdin.write_all(payload.as_bytes());
        });
    }
    let o = child.wait_with_output().map_err(|e| format!("featdrv: {e}"))?;
    sweep_worker_dir(&dir);
    let text = String::from_utf8_lossy(&o.stdout).to_string();
    let lines: Vec<&str> = text.lines().collect();
    if lines.len() != reqs.len() {
        return Err(format!("featdrv [{feats}] answered {} of {} requests", lines.len(), reqs.len()));
    }
    let mut enabled_n = 0;
    let mut disabled_n = 0;
    for ((src, kind), line) in reqs.iter().zip(lines) {
        if kind == "faulty" {
            enabled_n += 1;
            let full_ok = engine::expand_src(src).is_ok();
            let sub_ok = line.starts_with("ok ");
            if !full_ok && sub_ok {
                return Err(format!("features [{feats}]: an invalid request that the all-features build refuses is accepted\n{src}"));
            }
            continue;
        }
        if kind == "enabled" {
            enabled_n += 1;
            let full = match engine::expand_src(src) {
                Expansion::Ok(t) => format!("ok {:016x}", fnv64(&t)),
                Expansion::Err(m) => format!("err {}", m.replace('\n', "\\n")),
                Expansion::Panic(_) => "panic".to_string(),
                Expansion::Unparsable(m) => format!("unparsable {m}"),
            };
            let same = if full.starts_with("err ") && line.starts_with("err ") { true } else { full == line };
            if !same {
                return Err(format!("features [{feats}]: a request that only uses enabled traits expands differently than in the all-features build\n  subset: {line}\n  full:   {full}\n{src}"));
            }
        } else {
            disabled_n += 1;
            if !(line.starts_with("err ") && line.contains("unsupported trait")) {
                return Err(format!("features [{feats}]: {kind} is not rejected as unsupported: {line}\n{src}"));
            }
        }
    }
    Ok((enabled_n, disabled_n))
}

pub fn run(ctx: &Ctx) -> i32 {
    let mut rep = Report::new(
        ctx,
        "subsets of the 12 trait features (plus the non-trait feature `full` alone, with one trait and with all). Build half: cargo check of /repo (guard off) with exactly the subset: must succeed without warnings; the empty \
         set must fail with the explicit message. Behaviour half: the subject compiled with exactly the subset expands generated requests that use only \
         enabled traits to the same tokens as the all-features build, and every disabled trait named alone, among enabled ones, on a field, or added (plain, with ignore, with a method) \
         at the type, a variant or a field of a generated valid request is refused as unsupported. Quick: empty set, singletons, complements, pair splits plus sampled subsets; thorough: all 4096 subsets for the build half and about 1350 \
         for the behaviour half (all with at most 3 or at least 10 features, a fifth of the others; VERIF_C18_ALL=1 for all 4095). Non-trivial = the subset splits a coupled pair or enables exactly one user of a shared helper module",
    );
    if ctx.replay.is_some() {
        // the replay file carries the feature mask in `dna[0]`
        let v = check::read_replay(ctx.replay.as_ref().unwrap());
        let mask = v.as_ref().map(|v| check::dna_of(v)).and_then(|d| d.first().copied()).unwrap_or(0);
        rep.evaluations = 1;
        let r = build_half(mask).and_then(|_| if mask & 0x0FFF != 0 && mask & FULL_BIT == 0 { behaviour_half(mask, ctx.seed, 150).map(|_| ()) } else { Ok(()) });
        if let Err(m) = r {
            rep.violations.push(Failure { msg: m, dna: vec![mask], variant: "replay".into(), source: names(mask).join(","), unit_body: None });
        }
        return rep.finish();
    }
    // ---- subsets
    let full: u16 = 0x0FFF;
    let mut build_sets: Vec<u16> = Vec::new();
    let mut beh_sets: Vec<u16> = Vec::new();
    if ctx.thorough() {
        build_sets = (0..=full).collect();
        build_sets.push(FULL_BIT);
        build_sets.extend(ALL_TRAITS.iter().map(|t| FULL_BIT | t.bit()));
        build_sets.push(FULL_BIT | full);
        // the behaviour half compiles the subject and a driver from scratch for every subset (about 7 s each): all 4095 would
        // take an hour on 16 cores, so it takes every subset with at most 3 or at least 10 features and every fifth of the rest
        // (about 1350 subsets); VERIF_C18_ALL=1 makes it exhaustive
        let all = std::env::var_os("VERIF_C18_ALL").is_some();
        beh_sets = (1..=full).filter(|m: &u16| all || m.count_ones() <= 3 || m.count_ones() >= 10 || (*m as u32).wrapping_mul(2654435761u32) % 5 == 0).collect();
        rep.exhaustive = all;
        rep.count("build_half_is_exhaustive(4096+15 subsets)", 1);
    } else {
        build_sets.push(0);
        for t in ALL_TRAITS {
            build_sets.push(t.bit());
            build_sets.push(full & !t.bit());
        }
        let pairs = [(Tr::Copy, Tr::Clone), (Tr::Eq, Tr::PartialEq), (Tr::Ord, Tr::PartialOrd), (Tr::DerefMut, Tr::Deref)];
        for (a, b) in pairs {
            build_sets.push(a.bit() | Tr::Debug.bit());
            build_sets.push(b.bit() | Tr::Into.bit());
            build_sets.push(full & !(a.bit() | b.bit()));
        }
        build_sets.push(Tr::Ord.bit() | Tr::Into.bit());
        build_sets.push(Tr::PartialOrd.bit() | Tr::Hash.bit());
        // the non-trait feature `full`: alone (must be refused like the empty set), with one trait, with all
        build_sets.extend([FULL_BIT, FULL_BIT | Tr::Debug.bit(), FULL_BIT | Tr::Default.bit(), FULL_BIT | full]);
        // sampled subsets (proptest, seed-determined)
        let extra = ctx.scale(60, 60);
        for t in check::draw(ctx.seed, 0xC18, extra, 2) {
            let d = t.current();
            let m = d.first().copied().unwrap_or(1) & full;
            if m != 0 {
                build_sets.push(m);
            }
        }
        build_sets.sort();
        build_sets.dedup();
        beh_sets = vec![Tr::Debug.bit(), Tr::Clone.bit(), Tr::Copy.bit(), Tr::Eq.bit(), Tr::PartialOrd.bit(), Tr::Ord.bit(), Tr::Into.bit(), Tr::DerefMut.bit(), full & !Tr::Copy.bit(), full & !Tr::PartialEq.bit(), full & !Tr::PartialOrd.bit()];
        for t in check::draw(ctx.seed, 0xC18B, 8, 2) {
            let m = t.current().first().copied().unwrap_or(1) & full;
            if m != 0 {
                beh_sets.push(m);
            }
        }
        beh_sets.sort();
        beh_sets.dedup();
    }
    let pool = rayon::ThreadPoolBuilder::new().num_threads(16).build().unwrap();
    let build_res: Vec<(u16, Result<(), String>)> = pool.install(|| build_sets.par_iter().map(|m| (*m, build_half(*m))).collect());
    for (m, r) in &build_res {
        rep.evaluations += 1;
        rep.count("build_half_subsets", 1);
        if interesting(*m) {
            rep.nontrivial.insert(*m as u64);
        }
        if let Err(e) = r {
            if e.starts_with("cannot run") {
                rep.inconclusive.push(e.clone());
            } else {
                rep.violations.push(Failure { msg: e.clone(), dna: vec![*m], variant: "build".into(), source: format!("{}{}", names(*m & 0x0FFF).join(","), if *m & FULL_BIT != 0 { " +full" } else { "" }), unit_body: None });
            }
        }
    }
    let per = if ctx.thorough() { 60 } else { 150 };
    let seed = ctx.seed;
    let beh_res: Vec<(u16, Result<(usize, usize), String>)> = pool.install(|| beh_sets.par_iter().map(|m| (*m, behaviour_half(*m, seed, per))).collect());
    for (m, r) in &beh_res {
        rep.evaluations += 1;
        rep.count("behaviour_half_subsets", 1);
        if interesting(*m) {
            rep.nontrivial.insert(0x1000 | *m as u64);
        }
        match r {
            Ok((e, d)) => {
                rep.count("requests_using_enabled_traits_compared", *e as u64);
                rep.count("requests_naming_a_disabled_trait", *d as u64);
            },
            Err(e) if e.starts_with("cannot run") || e.starts_with("spawn") => rep.inconclusive.push(e.clone()),
            Err(e) => rep.violations.push(Failure { msg: e.clone(), dna: vec![*m], variant: "behaviour".into(), source: names(*m).join(","), unit_body: None }),
        }
    }
    rep.sample(json!({"build_half_examples": build_sets.iter().take(6).map(|m| names(*m).join(",")).collect::<Vec<_>>(), "behaviour_half_examples": beh_sets.iter().take(6).map(|m| names(*m).join(",")).collect::<Vec<_>>()}));
    // scratch build output of the workers is removed in the thorough tier (it is large); the quick tier keeps it warm
    if ctx.thorough() {
        for k in 0..16 {
            let _ = std::fs::remove_dir_all(format!("/verif/target/feat-b-{k}"));
            let _ = std::fs::remove_dir_all(format!("/verif/target/feat-d-{k}"));
        }
    }
    rep.finish()
}
