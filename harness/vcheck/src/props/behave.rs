//! Driver for the behavioural properties that go through Engine R: generated types are rendered
//! with an oracle written from the documented semantics and an observer `run(o)` that compares
//! educe's impl with the oracle over the enumerated values.
#![allow(dead_code)]

use serde_json::json;

use crate::check::{self, Ctx, Failure, RVerdict, Report};
use crate::dna::Dna;
use crate::engine::{self, Unit};
use crate::gen::{self, GenCfg};
use crate::props::common::*;
use crate::spec::*;

pub struct Rendered {
    /// oracle + `pub fn run(o: &mut Out)`
    pub observer: String,
    /// statically known non-triviality (may be refined by tallies)
    pub nontrivial: bool,
    /// tallies that must be > 0 for the case to count as non-trivial
    pub need_tallies: Vec<&'static str>,
    pub classes: Vec<String>,
}

pub struct Behaviour {
    pub prop: &'static str,
    pub rule: &'static str,
    pub salt: u64,
    pub cfg: fn(&mut Dna) -> GenCfg,
    /// adjust the built spec (property-specific post-processing); return false to skip the case
    pub adjust: fn(&mut TypeSpec, &mut Dna) -> bool,
    pub render: fn(&TypeSpec) -> Option<Rendered>,
    pub quick: usize,
    pub thorough: usize,
    pub batch: usize,
    pub assumptions: &'static [&'static str],
    /// number of generated units that are additionally run under Miri in the thorough tier (0 = none)
    pub miri_units: usize,
    /// a lane of the property's own beside the generated types (e.g. values of dynamically sized types, which the shared
    /// observers cannot enumerate by value); it adds to the report
    pub extra: Option<fn(&Ctx, &mut Report, &std::path::Path)>,
}

thread_local! {
    static KNOWN_C01: std::cell::RefCell<Option<Vec<check::Known>>> = std::cell::RefCell::new(None);
}

pub fn no_adjust(_s: &mut TypeSpec, _d: &mut Dna) -> bool {
    true
}

pub struct Prepared {
    pub spec: TypeSpec,
    pub unit: Unit,
    pub rendered: Rendered,
    pub gen_classes: Vec<&'static str>,
}

/// the naming environment a generated type is placed in (C19)
#[derive(Clone, Debug, Default)]
pub struct Env {
    /// identifier pool for user identifiers (None = neutral names)
    pub names: Option<Vec<String>>,
    /// place the type in a module that shadows the prelude names
    pub shadow: bool,
    /// prefixes by which generated bindings are derived from field names (`_s_`, `_o_`, `v_`, `_`, ..): some
    /// fields are renamed to prefix + <name of a sibling field>
    pub derive_prefixes: Vec<String>,
}

pub const SHADOWS: &str = "\
#[allow(dead_code)] pub struct Option; #[allow(dead_code)] pub struct Some; #[allow(dead_code)] pub struct None;\n\
#[allow(dead_code)] pub struct Result; #[allow(dead_code)] pub struct Ok; #[allow(dead_code)] pub struct Err;\n\
#[allow(dead_code)] pub struct Ordering; #[allow(dead_code)] pub struct Box; #[allow(dead_code)] pub struct Vec; #[allow(dead_code)] pub struct String;\n\
#[allow(dead_code)] pub struct Formatter; #[allow(dead_code)] pub struct Less; #[allow(dead_code)] pub struct Equal; #[allow(dead_code)] pub struct Greater;\n\
#[allow(dead_code)] pub trait Clone {} #[allow(dead_code)] pub trait Copy {} #[allow(dead_code)] pub trait Default {} #[allow(dead_code)] pub trait Debug {}\n\
#[allow(dead_code)] pub trait PartialEq {} #[allow(dead_code)] pub trait Eq {} #[allow(dead_code)] pub trait PartialOrd {} #[allow(dead_code)] pub trait Ord {}\n\
#[allow(dead_code)] pub trait Hash {} #[allow(dead_code)] pub trait Hasher {} #[allow(dead_code)] pub trait Into {} #[allow(dead_code)] pub trait From {}\n\
#[allow(dead_code)] pub trait Deref {} #[allow(dead_code)] pub trait DerefMut {} #[allow(dead_code)] pub trait Sized {} #[allow(dead_code)] pub trait Send {}\n\
#[allow(dead_code)] pub trait Sync {} #[allow(dead_code)] pub trait Drop {} #[allow(dead_code)] pub trait ToString {} #[allow(dead_code)] pub trait Iterator {}\n\
#[allow(dead_code)] pub trait Fn {} #[allow(dead_code)] pub trait AsRef {}\n\
#[allow(dead_code)] pub mod core {} #[allow(dead_code)] pub mod std {} #[allow(dead_code)] pub mod alloc {} #[allow(dead_code)] pub mod fmt {} #[allow(dead_code)] pub mod cmp {}\n";

pub fn prepare(b: &Behaviour, dna: &[u16]) -> Option<Prepared> {
    prepare_in(b, dna, &Env::default())
}

pub fn prepare_in(b: &Behaviour, dna: &[u16], env: &Env) -> Option<Prepared> {
    let mut d = Dna::new(dna);
    let mut cfg = (b.cfg)(&mut d);
    if let Some(pool) = &env.names {
        let lower: Vec<String> = pool.iter().filter(|n| n.chars().next().map(|c| c.is_lowercase() || c == '_').unwrap_or(false)).cloned().collect();
        let upper: Vec<String> = pool.iter().filter(|n| n.chars().next().map(|c| c.is_uppercase()).unwrap_or(false)).cloned().collect();
        if !lower.is_empty() {
            cfg.field_names = Some(lower.clone());
            cfg.lifetime_names = Some(lower.clone());
        }
        // type-like positions take both spellings: the statement quantifies over names, not over style
        let mut tl = upper.clone();
        tl.extend(lower.iter().cloned());
        if !tl.is_empty() {
            // the statement quantifies over field, variant, lifetime, const- and type-parameter names (not the type's own name)
            cfg.variant_names = Some(tl.clone());
            cfg.typaram_names = Some(tl.clone());
            // a const parameter named like a type or trait that is in scope (Clone, Eq, ..) is ambiguous to the language
            // itself in `Ty<Clone>`, whoever writes the impl; only names that are not types at the derive site are used
            let mut cl = lower.clone();
            // single capital letters are what generated generic parameters are called; give them weight
            for _ in 0..12 {
                cl.extend(upper.iter().filter(|n| n.len() == 1).cloned());
            }
            cfg.const_names = Some(cl);
        }
        cfg.raw_idents = false;
    }
    if env.shadow {
        cfg.plain_types_only = true;
    }
    let built = gen::build(&mut d, &cfg);
    let mut spec = built.spec;
    // (a type-level Default expression spells the field names out, so such requests keep their names)
    let has_type_expr = spec.traits.iter().any(|a| a.expr().is_some());
    if !env.derive_prefixes.is_empty() && !has_type_expr {
        for v in spec.variants.iter_mut() {
            if v.shape != Shape::Named || v.fields.len() < 2 || !d.chance(50) {
                continue;
            }
            let n = v.fields.len();
            let i = d.pick(n);
            let mut j = d.pick(n - 1);
            if j >= i {
                j += 1;
            }
            let base = v.fields[i].name.clone().unwrap_or_default();
            if base.starts_with("r#") || base.is_empty() {
                continue;
            }
            let mut p = d.choose(&env.derive_prefixes).clone();
            if d.chance(25) {
                p = format!("{p}{p}");
            }
            let cand = format!("{p}{base}");
            if !v.fields.iter().any(|f| f.name.as_deref() == Some(cand.as_str())) {
                v.fields[j].name = Some(cand);
            }
        }
    }
    if !(b.adjust)(&mut spec, &mut d) {
        return None;
    }
    // E3: user functions named like identifiers of the generated code, used as `method = name`
    if let (Some(pool), false) = (&env.names, env.shadow) {
        let def = spec.render_def();
        let mut methods: Vec<String> = Vec::new();
        for f in spec.all_fields() {
            for a in &f.attrs {
                for (p, _) in &a.params {
                    if let FParam::Method(m) = p {
                        // plain single-identifier paths only, and nowhere spelled as part of a longer path
                        if !m.is_empty() && m.chars().all(|c| c.is_alphanumeric() || c == '_') && !def.contains(&format!("::{m}")) && !def.contains(&format!("{m}::")) && !methods.contains(m) {
                            methods.push(m.clone());
                        }
                    }
                }
            }
        }
        let mut user: Vec<String> = vec![spec.name.clone()];
        user.extend(spec.gens.types.iter().map(|t| t.name.clone()));
        user.extend(spec.gens.consts.iter().map(|t| t.name.clone()));
        user.extend(spec.variants.iter().map(|v| v.name.clone()));
        const RESERVED_FN: [&str; 14] = ["run", "obs", "vals", "variant_of", "main", "core", "std", "alloc", "prelude", "educe", "hostile", "fp", "same", "o"];
        let lower: Vec<&String> = pool
            .iter()
            .filter(|n| n.chars().next().map(|c| c.is_lowercase()).unwrap_or(false) && !n.starts_with('_') && !user.contains(n) && !RESERVED_FN.contains(&n.as_str()))
            .collect();
        for m in methods {
            if lower.is_empty() || !d.chance(50) {
                continue;
            }
            // either the function itself gets a generated name, or it lives in a module named like a path segment the
            // generated code spells (`fmt::..`, `cmp::..`): whatever the expansion imports or declares under that name
            // must not capture the user's path
            if d.chance(35) {
                const SEGMENTS: [&str; 10] = ["fmt", "cmp", "hash", "clone", "ops", "convert", "marker", "default", "option", "result"];
                let seg = SEGMENTS[d.pick(SEGMENTS.len())];
                if user.iter().any(|u| u == seg) || spec.method_alias.iter().any(|(_, a)| a.starts_with(&format!("{seg}::"))) || spec.extra_items.iter().any(|i| i.contains(&format!("mod {seg} "))) {
                    continue;
                }
                spec.extra_items.push(format!("#[allow(unused_imports, dead_code)] pub mod {seg} {{ pub use super::super::prelude::{m}; }}"));
                spec.method_alias.push((m.clone(), format!("{seg}::{m}")));
                continue;
            }
            let h = (*d.choose(&lower)).clone();
            if spec.method_alias.iter().any(|(_, a)| *a == h) {
                continue;
            }
            spec.extra_items.push(format!("#[allow(unused_imports)] use super::prelude::{m} as {h};"));
            spec.method_alias.push((m, h));
        }
    }
    // requests that hit an open compile-level finding (owned by C01) are excluded by construction
    KNOWN_C01.with(|k| {
        if k.borrow().is_none() {
            *k.borrow_mut() = Some(check::load_known());
        }
    });
    let excluded = KNOWN_C01.with(|k| crate::known::pre_matches(k.borrow().as_ref().unwrap(), "C01", &spec));
    if excluded {
        return None;
    }
    let rendered = (b.render)(&spec)?;
    // the oracle and observer live in a child module with all lints off, so that warnings can only
    // come from the type definition and what educe generates for it
    let body = if env.shadow {
        format!(
            "use super::prelude::*;\npub mod hostile {{\nuse educe::Educe;\nuse crate::prelude::*;\n{}\n{}{}\npub mod obs {{\n#![allow(warnings)]\nuse crate::prelude::*;\nuse super::{};\n{}{}\n{}}}\n}}\npub fn run(o: &mut Out) {{ hostile::obs::run(o) }}\n",
            shadows_for(&spec),
            spec.render_def(),
            spec.render_support_impls(),
            spec.name,
            spec.render_vals_fn(),
            spec.render_variant_of(),
            rendered.observer
        )
    } else {
        format!(
            "{}{}{}\npub mod obs {{\n#![allow(warnings)]\nuse super::*;\n{}{}\n{}}}\npub fn run(o: &mut Out) {{ obs::run(o) }}\n",
            std_header(),
            spec.render_def(),
            spec.render_support_impls(),
            spec.render_vals_fn(),
            spec.render_variant_of(),
            rendered.observer
        )
    };
    Some(Prepared { spec, unit: Unit { body, has_run: true }, rendered, gen_classes: built.classes })
}

pub fn run(ctx: &Ctx, b: &Behaviour) -> i32 {
    if ctx.replay.is_some() {
        return check::replay_unit(ctx);
    }
    let mut rep = Report::new(ctx, b.rule);
    for a in b.assumptions {
        rep.assumptions.push(a.to_string());
    }
    rep.assumptions.push("observed on x86-64 with rustc 1.95, debug build (debug assertions and overflow checks on)".into());
    let known = check::load_known();
    let so = match engine::build_proc_macro() {
        Ok(s) => s,
        Err(e) => {
            rep.inconclusive.push(e.0);
            return rep.finish();
        },
    };
    let n = ctx.scale(b.quick, b.thorough);
    let mut trees = check::draw(ctx.seed, b.salt, n, 520);
    let mut prepared: Vec<(usize, Prepared)> = Vec::new();
    for (i, t) in trees.iter().enumerate() {
        match prepare(b, &t.current()) {
            Some(p) => prepared.push((i, p)),
            None => rep.count("skipped_by_generator", 1),
        }
    }
    let units: Vec<Unit> = prepared.iter().map(|(_, p)| p.unit.clone()).collect();
    let tag = b.prop.to_string();
    let (outs, stray) = check::eval_units(&tag, &units, &so, b.batch, true);
    for s in stray.iter().take(3) {
        rep.inconclusive.push(format!("diagnostic outside any generated type: {s}"));
    }
    let mut shrunk = 0;
    for (k, o) in outs.iter().enumerate() {
        let (ti, p) = &prepared[k];
        rep.evaluations += 1;
        for c in &p.gen_classes {
            rep.class(c);
        }
        for c in &p.rendered.classes {
            rep.class(c);
        }
        rep.count("runtime_checks", o.checks);
        for (k2, v) in &o.tallies {
            rep.count(&format!("tally_{k2}"), *v);
        }
        let tallies_ok = p.rendered.need_tallies.iter().all(|t| o.tallies.iter().any(|(k2, v)| k2 == t && *v > 0));
        if p.rendered.nontrivial && tallies_ok {
            rep.nontrivial.insert(fnv64(&p.spec.render_def()));
        }
        if rep.samples.len() < 4 && (k % 37 == 0) {
            rep.sample(json!({"definition": p.spec.render_def(), "observer_excerpt": p.rendered.observer.chars().take(1200).collect::<String>()}));
        }
        if let RVerdict::Fail(m) = check::judge_default(o, true) {
            if let Some(kf) = crate::known::explain(&known, b.prop, &p.spec, &m) {
                rep.known(&kf.id, &kf.what);
                continue;
            }
            // shrink the first few failures with proptest (each step recompiles one unit)
            let mut dna = trees[*ti].current();
            let mut body = p.unit.body.clone();
            let mut msg = m.clone();
            let mut def = p.spec.render_def();
            if shrunk < 3 {
                shrunk += 1;
                let so2 = so.clone();
                let tag2 = format!("{}-shrink", b.prop);
                let (best, steps) = check::shrink(&mut trees[*ti], if ctx.thorough() { 120 } else { 40 }, |d| {
                    let Some(p2) = prepare(b, d) else { return false };
                    let out = engine::eval_batch(&tag2, &[p2.unit.clone()], &so2, "", true);
                    matches!(check::judge_default(&out.units[0], true), RVerdict::Fail(_))
                });
                rep.count("shrink_steps", steps as u64);
                if let Some(p2) = prepare(b, &best) {
                    let out = engine::eval_batch(&tag2, &[p2.unit.clone()], &so2, "", true);
                    if let RVerdict::Fail(m2) = check::judge_default(&out.units[0], true) {
                        dna = best;
                        body = p2.unit.body.clone();
                        msg = m2;
                        def = p2.spec.render_def();
                    }
                }
                check::clean_work(&tag2);
            }
            rep.violations.push(Failure { msg, dna, variant: "behaviour".into(), source: def, unit_body: Some(body) });
        }
    }
    check::clean_work(&tag);
    if let Some(extra) = b.extra {
        extra(ctx, &mut rep, &so);
    }
    // ---- Miri lane (thorough tier): undefined behaviour that happens to give the right answer is still a failure
    if b.miri_units > 0 && (ctx.thorough() || std::env::var("VERIF_MIRI").is_ok()) {
        let small: Vec<&(usize, Prepared)> = prepared.iter().filter(|(_, p)| p.spec.variants.len() <= 6 && p.unit.body.len() < 20000).take(b.miri_units).collect();
        let units: Vec<Unit> = small.iter().map(|(_, p)| p.unit.clone()).collect();
        match engine::miri_run(&format!("{}-miri", b.prop), &units) {
            Ok((stdout, stderr, ok)) => {
                let ran = stdout.lines().filter(|l| l.starts_with("T ")).count();
                rep.count("miri_units_run", ran as u64);
                let fails: Vec<&str> = stdout.lines().filter(|l| l.starts_with("F ")).collect();
                if !ok || !fails.is_empty() {
                    let ub = stderr.lines().filter(|l| l.contains("Undefined Behavior") || l.contains("error:")).take(4).collect::<Vec<_>>().join(" | ");
                    if stderr.contains("Undefined Behavior") || !fails.is_empty() {
                        // attribute to the unit that was running: the last started one
                        let idx = ran.min(units.len().saturating_sub(1));
                        let (ti, p) = small[idx];
                        rep.violations.push(Failure {
                            msg: format!("under Miri: {} {}", ub, fails.iter().take(3).cloned().collect::<Vec<_>>().join(" ; ")),
                            dna: trees[*ti].current(),
                            variant: "miri".into(),
                            source: p.spec.render_def(),
                            unit_body: Some(p.unit.body.clone()),
                        });
                    } else {
                        rep.inconclusive.push(format!("the Miri lane did not complete: {}", stderr.lines().rev().take(5).collect::<Vec<_>>().join(" / ")));
                    }
                }
            },
            Err(e) => rep.inconclusive.push(e.0),
        }
        check::clean_work(&format!("{}-miri", b.prop));
    }
    rep.finish()
}

// ------------------------------------------------------------------------------------------ shared oracle pieces

/// `match (a, b) { (Pat(a0..), Pat(b0..)) => <same>(vi), .. , _ => <other> }`
pub fn match_same_variant(s: &TypeSpec, same: impl Fn(usize) -> String, other: &str) -> String {
    let mut o = String::from("    match (a, b) {\n");
    for vi in 0..s.variants.len() {
        o.push_str(&format!("        ({}, {}) => {{ {} }},\n", s.pattern(vi, "a"), s.pattern(vi, "b"), same(vi)));
    }
    if s.variants.len() != 1 {
        o.push_str(&format!("        #[allow(unreachable_patterns)] _ => {{ {other} }},\n"));
    }
    o.push_str("    }\n");
    o
}

/// fields of a variant in comparison order (ascending effective rank), excluding ignored ones
pub fn ordered_fields(v: &VariantSpec) -> Vec<usize> {
    let mut idx: Vec<(i128, usize)> = v
        .fields
        .iter()
        .enumerate()
        .filter(|(_, f)| !f.ignored(Tr::Ord))
        .map(|(i, f)| {
            let r = f.attr_for(Tr::Ord).and_then(|a| a.rank()).map(|r| r as i128).unwrap_or(isize::MIN as i128 + i as i128);
            (r, i)
        })
        .collect();
    idx.sort();
    idx.into_iter().map(|(_, i)| i).collect()
}

pub fn uses_ty(s: &TypeSpec, needle: &str) -> bool {
    s.all_fields().any(|f| f.ty.inst.contains(needle))
}

/// `let _ = (&a0, &b0, ..);` so that unused bindings never matter
pub fn touch_all(v: &VariantSpec) -> String {
    if v.fields.is_empty() {
        return String::new();
    }
    let mut parts = Vec::new();
    for i in 0..v.fields.len() {
        parts.push(format!("&a{i}"));
        parts.push(format!("&b{i}"));
    }
    format!("let _ = ({},); ", parts.join(", "))
}

/// the shadowing items, minus those whose name the user's own type-level identifiers already take
pub fn shadows_for(s: &TypeSpec) -> String {
    let mut taken: Vec<String> = vec![s.name.clone()];
    taken.extend(s.gens.types.iter().map(|t| t.name.clone()));
    taken.extend(s.gens.consts.iter().map(|t| t.name.clone()));
    let mut out = String::new();
    for item in SHADOWS.split("#[allow(dead_code)]") {
        let item = item.trim();
        if item.is_empty() {
            continue;
        }
        // `pub struct Name;` / `pub trait Name {}` / `pub mod name {}`
        let name = item.split_whitespace().nth(2).unwrap_or("").trim_end_matches(';').to_string();
        if taken.contains(&name) {
            continue;
        }
        out.push_str("#[allow(dead_code)] ");
        out.push_str(item);
        out.push('\n');
    }
    out
}
