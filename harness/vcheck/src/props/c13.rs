//! C13 — contradictory, ambiguous or misplaced attributes are rejected, not guessed.
use serde_json::json;

use crate::check::{self, Ctx, Failure, Report};
use crate::dna::Dna;
use crate::engine::{self, Expansion, Unit};
use crate::faults;
use crate::gen;
use crate::props::common::*;
use crate::spec::*;

pub struct Case {
    pub base_ok: bool,
    pub fault: Option<faults::Fault>,
    pub base_src: String,
    pub src: String,
    pub result: Expansion,
    pub spec: TypeSpec,
}

pub fn eval(dna: &[u16]) -> Case {
    let mut d = Dna::new(dna);
    let op = 1 + d.pick(faults::N_OPS);
    let cfg = faults::cfg_for(op, &mut d);
    let b = gen::build(&mut d, &cfg);
    let mut spec = b.spec;
    let base_src = spec.render_def_with("", true);
    let base_ok = engine::expand_src(&base_src).is_ok();
    let fault = faults::apply(op, &mut spec, &mut d);
    let mut src = spec.render_def_with("", true);
    // an invalid request stays invalid when a `macro_rules!` body hands its types, discriminants, parameter values and Into
    // targets over as fragments (inside invisible groups, see engine::none_groups)
    if fault.is_some() && d.chance(20) {
        src = spec.render_def_grouped(1 + d.pick(15) as u8);
    }
    let result = if fault.is_some() && base_ok { engine::expand_src(&src) } else { Expansion::Unparsable("not evaluated".into()) };
    Case { base_ok, fault, base_src, src, result, spec }
}

/// a case fails when the faulty request is accepted
fn is_failure(c: &Case) -> bool {
    c.base_ok && c.fault.is_some() && matches!(c.result, Expansion::Ok(_))
}

pub fn run(ctx: &Ctx) -> i32 {
    let mut rep = Report::new(
        ctx,
        "a valid request (accepted in the same run) plus exactly one fault operator O1..O14 at a generated position; \
         oracle: the expansion must be Err (an in-process panic is confirmed through rustc); non-trivial = distinct \
         (operator, level, position class, trait, kind) combination",
    );
    rep.assumptions.push("the in-process hook runs the same derive body as the shipping macro; panics seen only in-process are confirmed through real rustc".into());
    if let Some(p) = &ctx.replay {
        let Some(v) = check::read_replay(p) else { rep.inconclusive.push("unreadable replay file".into()); return rep.finish() };
        // the saved request itself is replayed: it must be refused
        if let Some(src) = v["source"].as_str() {
            let src = src.replace("#[derive(Educe)]\n", "");
            rep.evaluations = 1;
            match engine::expand_src(&src) {
                Expansion::Ok(_) => rep.violations.push(Failure { msg: "the saved invalid request is still accepted".into(), dna: check::dna_of(&v), variant: "replay".into(), source: src, unit_body: None }),
                Expansion::Panic(m) if v["variant"].as_str() == Some("panic") => {
                    if v["unit_body"].is_string() {
                        return check::replay_unit_panic(ctx, p);
                    }
                    let _ = m;
                },
                _ => {},
            }
            return rep.finish();
        }
        let c = eval(&check::dna_of(&v));
        rep.evaluations = 1;
        if is_failure(&c) {
            rep.violations.push(Failure { msg: format!("accepted although invalid ({}):", c.fault.as_ref().unwrap().what), dna: check::dna_of(&v), variant: "replay".into(), source: c.src, unit_body: None });
        }
        return rep.finish();
    }
    let known = check::load_known();
    let n = ctx.scale(60000, 300000);
    let mut trees = check::draw(ctx.seed, 0xC13, n, 420);
    let mut panics: Vec<(usize, Case)> = Vec::new();
    let mut per_op = vec![0u64; faults::N_OPS + 1];
    let dnas: Vec<Vec<u16>> = trees.iter().map(|t| t.current()).collect();
    use rayon::prelude::*;
    let results: Vec<Case> = dnas.par_iter().map(|d| eval(d)).collect();
    for (i, c) in results.into_iter().enumerate() {
        rep.evaluations += 1;
        if !c.base_ok {
            rep.count("base_not_accepted(skipped)", 1);
            continue;
        }
        let Some(f) = &c.fault else {
            rep.count("operator_not_applicable(skipped)", 1);
            continue;
        };
        per_op[f.op] += 1;
        rep.class(&format!("O{}", f.op));
        let kind = format!("{:?}", c.spec.kind);
        rep.nontrivial.insert(fnv64(&format!("{}|{}|{}", f.op, f.class, kind)));
        rep.count("faulty_requests_evaluated", 1);
        match &c.result {
            Expansion::Err(_) => {
                rep.count("rejected", 1);
                if rep.samples.len() < 5 && i % 7 == 0 {
                    rep.sample(json!({"fault": f.what, "request": c.src, "diagnostic": format!("{:?}", c.result)}));
                }
            },
            Expansion::Ok(_) if crate::known::explain(&known, "C13", &c.spec, "accepted").is_some() => {
                let k = crate::known::explain(&known, "C13", &c.spec, "accepted").unwrap();
                rep.known(&k.id, &k.what);
            },
            Expansion::Ok(_) => {
                // shrink with proptest while the same operator still yields an accepted request
                let op = f.op;
                // (only the first violations are shrunk: with thousands of accepted requests the shrinking would take hours)
                let budget = if rep.violations.len() < 6 { 300 } else { 0 };
                let (best, steps) = check::shrink(&mut trees[i], budget, |d| {
                    let c2 = eval(d);
                    is_failure(&c2) && c2.fault.as_ref().map(|f| f.op) == Some(op)
                });
                let c2 = eval(&best);
                rep.count("shrink_steps", steps as u64);
                let msg = format!("invalid request accepted (O{}: {})", op, c2.fault.as_ref().map(|f| f.what.clone()).unwrap_or_default());
                if let Some(k) = crate::known::explain(&known, "C13", &c2.spec, &msg) {
                    rep.known(&k.id, &k.what);
                    continue;
                }
                rep.violations.push(Failure {
                    msg,
                    dna: best,
                    variant: "accept".into(),
                    source: c2.src,
                    unit_body: None,
                });
            },
            Expansion::Panic(m) => {
                rep.count("in_process_panic(candidate)", 1);
                let _ = m;
                panics.push((i, c));
            },
            Expansion::Unparsable(m) => {
                rep.count("unparsable_after_fault", 1);
                if rep.inconclusive.len() < 3 {
                    rep.inconclusive.push(format!("fault operator produced an unparsable request: {m}\n{}", c.src));
                }
            },
        }
    }
    // confirm in-process panics (and, in the thorough tier, a sample of rejections) through real rustc
    let confirm_n = if ctx.thorough() { 3000 } else { 150 };
    let mut units: Vec<Unit> = Vec::new();
    let mut meta: Vec<(bool, usize, String, String)> = Vec::new();
    for (i, c) in &panics {
        units.push(Unit { body: format!("{}{}", std_header(), c.spec.render_def()), has_run: false });
        meta.push((true, *i, c.fault.as_ref().unwrap().what.clone(), c.src.clone()));
    }
    {
        let mut k = 0;
        for (i, t) in trees.iter().enumerate() {
            if k >= confirm_n {
                break;
            }
            if i % 11 != 0 {
                continue;
            }
            let c = eval(&t.current());
            if c.base_ok && c.fault.is_some() && c.result.is_err() {
                units.push(Unit { body: format!("{}{}", std_header(), c.spec.render_def()), has_run: false });
                meta.push((false, i, c.fault.as_ref().unwrap().what.clone(), c.src.clone()));
                k += 1;
            }
        }
    }
    if !units.is_empty() {
        match engine::build_proc_macro() {
            Ok(so) => {
                // every unit is expected to fail, so they are compiled one per program (in parallel)
                let (outs, _stray) = check::eval_units("C13", &units, &so, 1, false);
                for (k, o) in outs.iter().enumerate() {
                    let (was_panic, i, what, src) = &meta[k];
                    rep.count("confirmed_through_rustc", 1);
                    let panicked = o.proc_macro_panic || o.died.is_some();
                    if panicked {
                        let c = eval(&trees[*i].current());
                        if let Some(k) = crate::known::explain(&known, "C13", &c.spec, "panics") {
                            rep.known(&k.id, &k.what);
                            continue;
                        }
                        rep.violations.push(Failure {
                            msg: format!("the macro panics instead of reporting a diagnostic ({what}): {:?} {:?}", o.compile_errors, o.died),
                            dna: trees[*i].current(),
                            variant: "panic".into(),
                            source: src.clone(),
                            unit_body: Some(units[k].body.clone()),
                        });
                    } else if o.compile_errors.is_empty() {
                        rep.violations.push(Failure {
                            msg: format!("rustc accepts the invalid request ({what})"),
                            dna: trees[*i].current(),
                            variant: "rustc-accept".into(),
                            source: src.clone(),
                            unit_body: Some(units[k].body.clone()),
                        });
                    } else if *was_panic {
                        rep.count("fallback_only_panic(not reported)", 1);
                    }
                }
                check::clean_work("C13");
            },
            Err(e) => rep.inconclusive.push(e.0),
        }
    }
    for (op, n) in per_op.iter().enumerate().skip(1) {
        rep.counters.insert(format!("operator_O{op}_cases"), *n);
    }
    rep.finish()
}
