//! C15 — each trait's impl depends only on that trait's own attributes (metamorphic, in-process).
use serde_json::json;

use crate::check::{self, Ctx, Failure, Report};
use crate::dna::Dna;
use crate::engine::{self, Expansion};
use crate::gen::{self, GenCfg};
use crate::items;
use crate::spec::*;

fn partners(t: Tr) -> Vec<Tr> {
    match t {
        Tr::Copy => vec![Tr::Clone],
        Tr::Clone => vec![Tr::Copy],
        Tr::Eq => vec![Tr::PartialEq],
        Tr::PartialEq => vec![Tr::Eq],
        Tr::Ord => vec![Tr::PartialOrd],
        Tr::PartialOrd => vec![Tr::Ord],
        _ => vec![],
    }
}

/// keep only trait `t` and its documented partners, with their own attributes
fn reduce(s: &TypeSpec, t: Tr) -> TypeSpec {
    let mut keep = partners(t);
    keep.push(t);
    let mut r = s.clone();
    r.traits.retain(|a| keep.contains(&a.tr));
    for v in r.variants.iter_mut() {
        v.attrs.retain(|a| keep.contains(&a.tr));
        for f in v.fields.iter_mut() {
            f.attrs.retain(|a| keep.contains(&a.tr));
        }
    }
    r
}

/// re-configure every *other* trait: flip ignore flags, drop methods/ranks/names, reorder
fn reconfigure(s: &TypeSpec, t: Tr, d: &mut Dna) -> TypeSpec {
    let mut keep = partners(t);
    keep.push(t);
    let mut r = s.clone();
    // reorder traits
    let n = r.traits.len();
    if n > 1 {
        let k = d.pick(n);
        r.traits.rotate_left(k);
    }
    for a in r.traits.iter_mut() {
        if keep.contains(&a.tr) {
            continue;
        }
        // drop optional type-level parameters of other traits (bound, name, named_field, new)
        if d.chance(50) {
            a.params.retain(|(p, _)| matches!(p, TParam::Unsafe | TParam::Expr(_)));
            a.sp &= !1;
        }
    }
    for v in r.variants.iter_mut() {
        for a in v.attrs.iter_mut() {
            if !keep.contains(&a.tr) && a.tr == Tr::Debug && d.chance(50) {
                a.params.retain(|(p, _)| !matches!(p, TParam::NamedField(_)));
            }
        }
        v.attrs.retain(|a| keep.contains(&a.tr) || !(a.tr == Tr::Debug && a.params.is_empty()));
        for f in v.fields.iter_mut() {
            for a in f.attrs.iter_mut() {
                if keep.contains(&a.tr) || matches!(a.tr, Tr::Deref | Tr::DerefMut | Tr::Into | Tr::Default) {
                    continue;
                }
                if d.chance(50) {
                    // drop ranks (may not collide afterwards: defaults are unique) and methods of other traits
                    a.params.retain(|(p, _)| !matches!(p, FParam::Rank(_) | FParam::Method(_) | FParam::Name(_)));
                    a.sp &= !1;
                }
            }
            f.attrs.retain(|a| keep.contains(&a.tr) || !a.params.is_empty() || matches!(a.tr, Tr::Deref | Tr::DerefMut | Tr::Into | Tr::Default));
        }
    }
    r
}

pub struct Res {
    pub full: String,
    pub other: String,
    pub t: Tr,
    pub n_traits: usize,
    pub interesting: bool,
    pub mode: &'static str,
    pub verdict: Result<(), String>,
    pub evaluated: bool,
}

fn items_of(e: &Expansion, t: Tr) -> Result<Vec<String>, String> {
    match e {
        Expansion::Ok(text) => {
            let mut v: Vec<String> = items::split_items_str(text)?.into_iter().filter(|i| items::owner(i) == t.name()).map(|i| i.text).collect();
            v.sort();
            Ok(v)
        },
        other => Err(format!("{:?}", other)),
    }
}

pub fn eval(dna: &[u16]) -> Res {
    let mut d = Dna::new(dna);
    let mut cfg = GenCfg::full();
    cfg.trait_pct = 50;
    let built = gen::build(&mut d, &cfg);
    let mut s = built.spec;
    let _ = crate::props::c12::exotic_in_process(&mut s, &mut d);
    let educed: Vec<Tr> = {
        let mut v: Vec<Tr> = s.traits.iter().map(|a| a.tr).collect();
        v.dedup();
        v
    };
    let t = *d.choose(&educed);
    let mode = if d.chance(50) { "drop-others" } else { "reconfigure-others" };
    let other = if mode == "drop-others" { reduce(&s, t) } else { reconfigure(&s, t, &mut d) };
    let mut keep = partners(t);
    keep.push(t);
    // does another trait carry ignore/method/rank on a field that t does not ignore?
    let interesting = educed.len() >= 2
        && s.all_fields().any(|f| !f.ignored(t) && f.attrs.iter().any(|a| !keep.contains(&a.tr) && a.params.iter().any(|(p, _)| matches!(p, FParam::Ignore(true) | FParam::Method(_) | FParam::Rank(_)))));
    let full = s.render_def_with("", true);
    let other_src = other.render_def_with("", true);
    let ea = engine::expand_src(&full);
    let eb = engine::expand_src(&other_src);
    let (verdict, evaluated) = match (&ea, &eb) {
        (Expansion::Ok(_), Expansion::Ok(_)) => match (items_of(&ea, t), items_of(&eb, t)) {
            (Ok(x), Ok(y)) => {
                if x == y {
                    (Ok(()), true)
                } else {
                    (Err(format!("the impl of {} changes when other traits are {}:\n  with all traits: {:?}\n  otherwise:       {:?}", t.name(), mode, x, y)), true)
                }
            },
            (Err(e), _) | (_, Err(e)) => (Err(format!("expansion cannot be analysed: {e}")), true),
        },
        // the full request is valid by construction (C01's generator). Refused, while the same request without (or with
        // re-configured) other traits is accepted, means that the attributes of the other traits decide whether t gets an impl
        // at all. (The opposite direction proves nothing: re-configuring may remove a name or a rank that the other trait needs.)
        (Expansion::Err(m), Expansion::Ok(_)) => (Err(format!("the request is refused with all traits ({m}), but accepted once the other traits are {mode}")), true),
        // a request that is refused either way is not this property's business
        _ => (Ok(()), false),
    };
    Res { full, other: other_src, t, n_traits: educed.len(), interesting, mode, verdict, evaluated }
}

pub fn run(ctx: &Ctx) -> i32 {
    let mut rep = Report::new(
        ctx,
        "a request with trait set S+{t}; the comparison request keeps t and its documented partner (Copy/Clone, Eq/PartialEq, Ord/PartialOrd) \
         and either drops or re-configures/reorders every other trait; oracle: the impl items of t are token-identical in both expansions, and a (valid) full request is not refused where the comparison request is accepted; \
         non-trivial = at least two traits and another trait has ignore/method/rank on a field that t does not ignore; distinct by request hash",
    );
    if let Some(p) = &ctx.replay {
        let Some(v) = check::read_replay(p) else { rep.inconclusive.push("unreadable replay file".into()); return rep.finish() };
        let saved = v["source"].as_str().unwrap_or("");
        if let Some((head, rest)) = saved.split_once("\n// full\n") {
            if let (Some(tn), Some((a, b))) = (head.strip_prefix("// trait: "), rest.split_once("\n// other\n")) {
                if let Some(t) = ALL_TRAITS.iter().copied().find(|t| t.name() == tn.trim()) {
                    rep.evaluations = 1;
                    let (ea, eb) = (engine::expand_src(a), engine::expand_src(b));
                    if let (Ok(x), Ok(y)) = (items_of(&ea, t), items_of(&eb, t)) {
                        if x != y {
                            rep.violations.push(Failure { msg: format!("the impl of {} still differs between the two saved requests", t.name()), dna: check::dna_of(&v), variant: "replay".into(), source: saved.to_string(), unit_body: None });
                        }
                    }
                    return rep.finish();
                }
            }
        }
        let r = eval(&check::dna_of(&v));
        rep.evaluations = 1;
        if let Err(m) = r.verdict {
            rep.violations.push(Failure { msg: m, dna: check::dna_of(&v), variant: "replay".into(), source: format!("// full\n{}\n// other\n{}", r.full, r.other), unit_body: None });
        }
        return rep.finish();
    }
    let n = ctx.scale(60000, 300000);
    let mut trees = check::draw(ctx.seed, 0xC15, n, 520);
    let dnas: Vec<Vec<u16>> = trees.iter().map(|t| t.current()).collect();
    use rayon::prelude::*;
    let results: Vec<Res> = dnas.par_iter().map(|d| eval(d)).collect();
    for (i, r) in results.into_iter().enumerate() {
        rep.evaluations += 1;
        if !r.evaluated {
            rep.count("not_both_accepted(skipped)", 1);
            continue;
        }
        rep.class(&format!("t_{}", r.t.name()));
        rep.class(r.mode);
        if r.interesting {
            rep.nontrivial.insert(fnv64(&format!("{}{}", r.full, r.t.name())));
        }
        if i < 2 {
            rep.sample(json!({"trait": r.t.name(), "full": r.full, "other": r.other}));
        }
        if r.verdict.is_err() {
            let (best, steps) = check::shrink(&mut trees[i], 300, |d| eval(d).verdict.is_err());
            rep.count("shrink_steps", steps as u64);
            let r2 = eval(&best);
            rep.violations.push(Failure {
                msg: r2.verdict.err().unwrap_or_else(|| "impl depends on other traits".into()),
                dna: best,
                variant: "pair".into(),
                source: format!("// trait: {}\n// full\n{}\n// other\n{}", r2.t.name(), r2.full, r2.other),
                unit_body: None,
            });
            if rep.violations.len() >= 10 {
                break;
            }
        }
    }
    rep.finish()
}
