//! C02 — PartialEq is exactly field-wise equality over the compared fields.
use crate::check::Ctx;
use crate::dna::Dna;
use crate::gen::GenCfg;
use crate::props::behave::*;
use crate::spec::*;

fn cfg(d: &mut Dna) -> GenCfg {
    let mut c = GenCfg::behaviour(&[Tr::PartialEq], &[Tr::Eq, Tr::Hash, Tr::PartialOrd, Tr::Clone, Tr::Debug]);
    c.trait_pct = 20;
    c.attr_pct = 45;
    c.max_variants = 4;
    let _ = d;
    c
}

pub fn render(s: &TypeSpec) -> Option<Rendered> {
    if s.variants.is_empty() {
        return None;
    }
    let ty = s.inst_ty();
    let mut o = String::new();
    // ---- oracle
    o.push_str(&format!("pub fn oracle_eq(a: &{ty}, b: &{ty}) -> bool {{\n"));
    o.push_str(&match_same_variant(
        s,
        |vi| {
            let mut terms: Vec<String> = Vec::new();
            for (i, f) in s.variants[vi].fields.iter().enumerate() {
                if f.ignored(Tr::PartialEq) {
                    continue;
                } else if let Some(m) = f.method(Tr::PartialEq) {
                    terms.push(format!("{m}(a{i}, b{i})"));
                } else {
                    terms.push(format!("(a{i} == b{i})"));
                }
            }
            format!("{}{}", touch_all(&s.variants[vi]), if terms.is_empty() { "true".to_string() } else { terms.join(" && ") })
        },
        "false",
    ));
    o.push_str("}\n");
    // ---- lawfulness of the field comparisons in use
    let asym = s.all_fields().any(|f| !f.ignored(Tr::PartialEq) && f.method(Tr::PartialEq) == Some("m_eq_le"));
    let nan = s.all_fields().any(|f| !f.ignored(Tr::PartialEq) && f.method(Tr::PartialEq).is_none() && (f.ty.inst.contains("f32") || f.ty.inst.contains("f64")));
    let lawful = !asym && !nan;
    // ---- observer
    o.push_str("pub fn run(o: &mut Out) {\n    let xs = vals();\n    let ys = vals();\n");
    o.push_str("    for (i, a) in xs.iter().enumerate() {\n        for (j, b) in ys.iter().enumerate() {\n");
    o.push_str("            let exp = oracle_eq(a, b);\n            let got = a == b;\n");
    o.push_str("            o.check(got == exp, || format!(\"value {i} == value {j}: educe says {got}, field-wise equality says {exp}\"));\n");
    o.push_str("            #[allow(clippy::partialeq_ne_impl)] let ne = a != b;\n");
    o.push_str("            o.check(ne == !exp, || format!(\"value {i} != value {j}: educe says {ne}, expected {}\", !exp));\n");
    o.push_str("            if exp { o.tally(\"eq_true\", 1); } else { o.tally(\"eq_false\", 1); }\n");
    o.push_str("            if variant_of(a) != variant_of(b) { o.tally(\"cross_variant\", 1); }\n");
    o.push_str("        }\n    }\n");
    o.push_str("    for (i, a) in xs.iter().enumerate() {\n        let exp = oracle_eq(a, a);\n        let got = a == a;\n");
    o.push_str("        o.check(got == exp && (a != a) == !exp, || format!(\"value {i} compared with itself (same object): educe says {got}, field-wise equality says {exp}\"));\n    }\n");
    if lawful {
        o.push_str("    for (i, a) in xs.iter().enumerate() {\n");
        o.push_str("        o.check(a == &ys[i], || format!(\"reflexivity fails for value {i}\"));\n");
        o.push_str("        for (j, b) in ys.iter().enumerate() {\n");
        o.push_str("            o.check((a == b) == (b == a), || format!(\"symmetry fails for values {i},{j}\"));\n");
        o.push_str("            if a == b { for (k, c) in xs.iter().enumerate() { if b == c { o.check(a == c, || format!(\"transitivity fails for values {i},{j},{k}\")); o.tally(\"transitive_triples\", 1); } } }\n");
        o.push_str("        }\n    }\n");
    }
    o.push_str("}\n");
    let multi = s.variants.iter().any(|v| v.fields.len() >= 2);
    let mut classes = vec![];
    if asym {
        classes.push("asymmetric_method".to_string());
    }
    if nan {
        classes.push("nan_field".to_string());
    }
    if s.all_fields().any(|f| f.ignored(Tr::PartialEq)) {
        classes.push("ignored_field".to_string());
    }
    if s.all_fields().any(|f| f.attrs.iter().any(|a| a.tr == Tr::Eq)) {
        classes.push("attrs_via_Eq".to_string());
    }
    Some(Rendered { observer: o, nontrivial: multi, need_tallies: vec!["eq_true", "eq_false"], classes })
}

pub fn run(ctx: &Ctx) -> i32 {
    run_behaviour(ctx)
}

fn run_behaviour(ctx: &Ctx) -> i32 {
    crate::props::behave::run(ctx, &behaviour())
}

/// Values of dynamically sized types. The shared observers enumerate values by value, which a `Dst<[u8]>` cannot be: this lane
/// renders structs with an unsized tail (`[u8]`, or `dyn Key` when the tail is not compared natively), boxes values of
/// different tail lengths (so that `size_of_val` differs between them) and compares all pairs with the field-wise oracle.
fn dst_lane(ctx: &Ctx, rep: &mut crate::check::Report, so: &std::path::Path) {
    use crate::check::{self, Failure, RVerdict};
    use crate::engine::Unit;
    let n = ctx.scale(60, 400);
    let mut units: Vec<Unit> = Vec::new();
    let mut defs: Vec<String> = Vec::new();
    let mut dnas: Vec<Vec<u16>> = Vec::new();
    for dna in check::draw_values(ctx.seed, 0xC02D, n, 24) {
        let mut d = Dna::new(&dna);
        let named = d.chance(60);
        let two_headers = d.chance(50);
        let h1_ignored = two_headers && d.chance(40);
        let tail_mode = d.pick(3); // 0 own ==, 1 ignored, 2 custom method
        let dyn_tail = tail_mode != 0 && d.chance(40);
        let with_eq = tail_mode == 0 && d.chance(50);
        let written_under = if with_eq && d.chance(40) { "Eq" } else { "PartialEq" };
        let tail_attr = match (tail_mode, d.pick(3)) {
            (0, _) => String::new(),
            (1, 0) => format!("#[educe({written_under}(ignore))] "),
            (1, 1) => format!("#[educe({written_under} = false)] "),
            (1, _) => format!("#[educe({written_under}(ignore = true))] "),
            (_, 0) => format!("#[educe({written_under}(method = m_eq_le))] "),
            (_, 1) => format!("#[educe({written_under}(method(m_eq_le)))] "),
            (_, _) => format!("#[educe({written_under}(method = \"m_eq_le\"))] "),
        };
        let h1_attr = if h1_ignored { "#[educe(PartialEq(ignore))] " } else { "" };
        let traits = if with_eq { "PartialEq, Eq" } else { "PartialEq" };
        let (open, close, f0, f1, ft) = if named { ("{", "}", "h0: ", "h1: ", "tail: ") } else { ("(", ");", "", "", "") };
        let mut def = format!("#[derive(Educe)]\n#[educe({traits})]\npub struct Dst<Zt: ?Sized + Key> {open}\n    {f0}u32,\n");
        if two_headers {
            def.push_str(&format!("    {h1_attr}{f1}u8,\n"));
        }
        def.push_str(&format!("    {tail_attr}{ft}Zt,\n{close}\n"));
        let target = if dyn_tail { "dyn Key" } else { "[u8]" };
        // (header, second header, tail): tails of 1, 3 and 6 bytes give padded sizes 8, 8 and 12 behind a u32 header
        let rows: [(u32, u8, &str); 8] = [(1, 1, "[1u8, 2, 3]"), (1, 1, "[1u8, 2, 3, 4, 5, 6]"), (1, 2, "[1u8, 2, 3]"), (2, 1, "[1u8, 2, 3]"), (1, 1, "[9u8]"), (1, 1, "[1u8, 2, 4]"), (1, 2, "[7u8, 7, 7, 7, 7, 7, 7]"), (1, 1, "[0u8; 0]")];
        let mk = |h0: u32, h1: u8, t: &str| -> String {
            let t = if dyn_tail { format!("Wrap({}.key())", t) } else { t.to_string() };
            match (named, two_headers) {
                (true, true) => format!("Dst {{ h0: {h0}, h1: {h1}, tail: {t} }}"),
                (true, false) => format!("Dst {{ h0: {h0}, tail: {t} }}"),
                (false, true) => format!("Dst({h0}, {h1}, {t})"),
                (false, false) => format!("Dst({h0}, {t})"),
            }
        };
        let mut o = String::new();
        o.push_str(&format!("pub fn run(o: &mut Out) {{\n    let xs: ::std::vec::Vec<(u32, u8, i64, ::std::boxed::Box<Dst<{target}>>)> = vec![\n"));
        for (h0, h1, t) in rows.iter() {
            o.push_str(&format!("        ({h0}, {h1}, Key::key(&{t}), ::std::boxed::Box::new({})),\n", mk(*h0, *h1, t)));
        }
        o.push_str("    ];\n    let mut sizes = ::std::collections::BTreeSet::new();\n");
        o.push_str("    for (i, a) in xs.iter().enumerate() {\n        sizes.insert(::core::mem::size_of_val(&*a.3));\n        for (j, b) in xs.iter().enumerate() {\n");
        let headers = if two_headers && !h1_ignored { "a.0 == b.0 && a.1 == b.1" } else { "a.0 == b.0" };
        let tail = match tail_mode {
            0 => "a.2 == b.2",
            1 => "true",
            _ => "a.2 <= b.2",
        };
        o.push_str(&format!("            let exp = {headers} && {tail};\n            let got = *a.3 == *b.3;\n"));
        o.push_str("            o.check(got == exp, || format!(\"dynamically sized values {i} == {j}: educe says {got}, field-wise equality says {exp}\"));\n");
        o.push_str("            o.check((*a.3 != *b.3) == !exp, || format!(\"dynamically sized values {i} != {j} is not the negation of ==\"));\n");
        o.push_str("            o.tally(\"dst_pairs\", 1);\n        }\n    }\n");
        if !dyn_tail {
            o.push_str("    o.check(sizes.len() >= 2, || \"HARNESS: the values all have one size\".to_string());\n");
        }
        o.push_str("}\n");
        // (the tail key of a slice is injective enough for these rows: all eight keys are distinct)
        let body = format!("{}{}\npub mod obs {{\n#![allow(warnings)]\nuse super::*;\n{}}}\npub fn run(o: &mut Out) {{ obs::run(o) }}\n", crate::props::common::std_header(), def, o);
        units.push(Unit { body, has_run: true });
        defs.push(def);
        dnas.push(dna);
    }
    let (outs, _) = check::eval_units("C02-dst", &units, so, 20, true);
    for (k, o) in outs.iter().enumerate() {
        rep.evaluations += 1;
        rep.class("dynamically_sized_values");
        rep.count("runtime_checks", o.checks);
        rep.nontrivial.insert(fnv64(&defs[k]));
        if let RVerdict::Fail(m) = check::judge_default(o, true) {
            rep.violations.push(Failure { msg: format!("[dynamically sized values] {m}"), dna: dnas[k].clone(), variant: "dst".into(), source: defs[k].clone(), unit_body: Some(units[k].body.clone()) });
        }
    }
    check::clean_work("C02-dst");
}

pub fn behaviour() -> Behaviour {
    Behaviour {
        prop: "C02",
        rule: "structs and enums (all shapes, generics instantiated) with PartialEq educed and per-field ignore/method carried by PartialEq(..) or Eq(..); \
               values per variant: a base value, every single-field variation, all-different values; every ordered pair is compared with a rendered \
               oracle (same variant and every non-ignored field equal under its method, left operand first, or its own ==); != must be the negation; \
               reflexivity/symmetry/transitivity over all triples when no asymmetric method and no NaN is compared; non-trivial = a variant with \
               at least 2 fields and both outcomes observed; distinct by definition hash; plus a lane over dynamically sized values (structs with a `[u8]` / `dyn Key` tail compared natively, ignored or by a method; boxed values of different tail lengths, all pairs)",
        salt: 0xC02,
        cfg,
        adjust: no_adjust,
        render,
        quick: 7000,
        thorough: 20000,
        batch: 25,
        assumptions: &["custom methods m_eq_le (asymmetric) and m_eq_mod make argument order and method identity observable"],
        miri_units: 0,
        extra: Some(dst_lane),
    }
}
