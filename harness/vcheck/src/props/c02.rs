//! C02 — PartialEq is exactly field-wise equality over the compared fields.
use crate::check::Ctx;
use crate::dna::Dna;
use crate::gen::GenCfg;
use crate::props::behave::*;
use crate::spec::*;

fn cfg(d: &mut Dna) -> GenCfg {
    let mut c = GenCfg::behaviour(&[Tr::PartialEq], &[Tr::Eq, Tr::Hash, Tr::PartialOrd, Tr::Clone, Tr::Debug]);
    c.trait_pct = 20;
    c.attr_pct = 45;
    c.max_variants = 4;
    let _ = d;
    c
}

pub fn render(s: &TypeSpec) -> Option<Rendered> {
    if s.variants.is_empty() {
        return None;
    }
    let ty = s.inst_ty();
    let mut o = String::new();
    // ---- oracle
    o.push_str(&format!("pub fn oracle_eq(a: &{ty}, b: &{ty}) -> bool {{\n"));
    o.push_str(&match_same_variant(
        s,
        |vi| {
            let mut terms: Vec<String> = Vec::new();
            for (i, f) in s.variants[vi].fields.iter().enumerate() {
                if f.ignored(Tr::PartialEq) {
                    continue;
                } else if let Some(m) = f.method(Tr::PartialEq) {
                    terms.push(format!("{m}(a{i}, b{i})"));
                } else {
                    terms.push(format!("(a{i} == b{i})"));
                }
            }
            format!("{}{}", touch_all(&s.variants[vi]), if terms.is_empty() { "true".to_string() } else { terms.join(" && ") })
        },
        "false",
    ));
    o.push_str("}\n");
    // ---- lawfulness of the field comparisons in use
    let asym = s.all_fields().any(|f| !f.ignored(Tr::PartialEq) && f.method(Tr::PartialEq) == Some("m_eq_le"));
    let nan = s.all_fields().any(|f| !f.ignored(Tr::PartialEq) && f.method(Tr::PartialEq).is_none() && (f.ty.inst.contains("f32") || f.ty.inst.contains("f64")));
    let lawful = !asym && !nan;
    // ---- observer
    o.push_str("pub fn run(o: &mut Out) {\n    let xs = vals();\n    let ys = vals();\n");
    o.push_str("    for (i, a) in xs.iter().enumerate() {\n        for (j, b) in ys.iter().enumerate() {\n");
    o.push_str("            let exp = oracle_eq(a, b);\n            let got = a == b;\n");
    o.push_str("            o.check(got == exp, || format!(\"value {i} == value {j}: educe says {got}, field-wise equality says {exp}\"));\n");
    o.push_str("            #[allow(clippy::partialeq_ne_impl)] let ne = a != b;\n");
    o.push_str("            o.check(ne == !exp, || format!(\"value {i} != value {j}: educe says {ne}, expected {}\", !exp));\n");
    o.push_str("            if exp { o.tally(\"eq_true\", 1); } else { o.tally(\"eq_false\", 1); }\n");
    o.push_str("            if variant_of(a) != variant_of(b) { o.tally(\"cross_variant\", 1); }\n");
    o.push_str("        }\n    }\n");
    o.push_str("    for (i, a) in xs.iter().enumerate() {\n        let exp = oracle_eq(a, a);\n        let got = a == a;\n");
    o.push_str("        o.check(got == exp && (a != a) == !exp, || format!(\"value {i} compared with itself (same object): educe says {got}, field-wise equality says {exp}\"));\n    }\n");
    if lawful {
        o.push_str("    for (i, a) in xs.iter().enumerate() {\n");
        o.push_str("        o.check(a == &ys[i], || format!(\"reflexivity fails for value {i}\"));\n");
        o.push_str("        for (j, b) in ys.iter().enumerate() {\n");
        o.push_str("            o.check((a == b) == (b == a), || format!(\"symmetry fails for values {i},{j}\"));\n");
        o.push_str("            if a == b { for (k, c) in xs.iter().enumerate() { if b == c { o.check(a == c, || format!(\"transitivity fails for values {i},{j},{k}\")); o.tally(\"transitive_triples\", 1); } } }\n");
        o.push_str("        }\n    }\n");
    }
    o.push_str("}\n");
    let multi = s.variants.iter().any(|v| v.fields.len() >= 2);
    let mut classes = vec![];
    if asym {
        classes.push("asymmetric_method".to_string());
    }
    if nan {
        classes.push("nan_field".to_string());
    }
    if s.all_fields().any(|f| f.ignored(Tr::PartialEq)) {
        classes.push("ignored_field".to_string());
    }
    if s.all_fields().any(|f| f.attrs.iter().any(|a| a.tr == Tr::Eq)) {
        classes.push("attrs_via_Eq".to_string());
    }
    Some(Rendered { observer: o, nontrivial: multi, need_tallies: vec!["eq_true", "eq_false"], classes })
}

pub fn run(ctx: &Ctx) -> i32 {
    run_behaviour(ctx)
}

fn run_behaviour(ctx: &Ctx) -> i32 {
    crate::props::behave::run(ctx, &behaviour())
}

pub fn behaviour() -> Behaviour {
    Behaviour {
        prop: "C02",
        rule: "structs and enums (all shapes, generics instantiated) with PartialEq educed and per-field ignore/method carried by PartialEq(..) or Eq(..); \
               values per variant: a base value, every single-field variation, all-different values; every ordered pair is compared with a rendered \
               oracle (same variant and every non-ignored field equal under its method, left operand first, or its own ==); != must be the negation; \
               reflexivity/symmetry/transitivity over all triples when no asymmetric method and no NaN is compared; non-trivial = a variant with \
               at least 2 fields and both outcomes observed; distinct by definition hash",
        salt: 0xC02,
        cfg,
        adjust: no_adjust,
        render,
        quick: 4000,
        thorough: 20000,
        batch: 25,
        assumptions: &["custom methods m_eq_le (asymmetric) and m_eq_mod make argument order and method identity observable"],
        miri_units: 0,
    }
}
