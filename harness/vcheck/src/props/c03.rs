//! C03 — ordering is lexicographic over non-ignored fields in rank order.
use crate::check::Ctx;
use crate::dna::Dna;
use crate::gen::GenCfg;
use crate::props::behave::*;
use crate::spec::*;

fn cfg(d: &mut Dna) -> GenCfg {
    let must: Vec<Tr> = match d.pick(3) {
        0 => vec![Tr::PartialOrd],
        1 => vec![Tr::Ord],
        _ => vec![Tr::PartialOrd, Tr::Ord],
    };
    let mut c = GenCfg::behaviour(&must, &[Tr::PartialEq, Tr::Eq, Tr::Hash, Tr::Debug, Tr::Clone, Tr::Copy]);
    c.trait_pct = 15;
    c.attr_pct = 55;
    c.max_variants = 3;
    c.min_fields = if d.chance(70) { 2 } else { 0 };
    c
}

/// now and then one compared field (without a method, of a plain type) becomes `Skew`, whose PartialOrd is the reverse of
/// its Ord: whichever of the two the generated code asks where the other is documented shows
fn adjust(s: &mut TypeSpec, d: &mut Dna) -> bool {
    if s.kind == Kind::Union || !d.chance(12) {
        return true;
    }
    let skew = crate::types::base_types().into_iter().find(|b| b.src == "Skew");
    let Some(skew) = skew else { return true };
    let has_default = s.has(Tr::Default);
    for v in s.variants.iter_mut() {
        let cands: Vec<usize> = (0..v.fields.len())
            .filter(|i| {
                let f = &v.fields[*i];
                f.ty.params.is_empty() && f.ty.refs == 0 && f.default_expect.is_none() && f.attrs.iter().all(|a| a.method().is_none() && !a.ignore()) && !has_default
            })
            .collect();
        if !cands.is_empty() {
            let i = *d.choose(&cands);
            v.fields[i].ty = skew.clone();
        }
    }
    true
}

/// `fn oracle_cmp(a, b) -> Option<Ordering>` over same-variant pairs (None for different variants = "not this property")
pub fn render_field_oracle(s: &TypeSpec, total: bool) -> String {
    let ty = s.inst_ty();
    let mut o = format!("pub fn oracle_fields(a: &{ty}, b: &{ty}) -> ::core::option::Option<::core::option::Option<::core::cmp::Ordering>> {{\n    use ::core::cmp::Ordering::*;\n");
    o.push_str(&match_same_variant(
        s,
        |vi| {
            let v = &s.variants[vi];
            let mut code = touch_all(v);
            for i in ordered_fields(v) {
                let f = &v.fields[i];
                let call = match (f.method(Tr::Ord), total) {
                    (Some(m), true) => format!("Some({m}(a{i}, b{i}))"),
                    (Some(m), false) => format!("{m}(a{i}, b{i})"),
                    (None, true) => format!("Some(::core::cmp::Ord::cmp(a{i}, b{i}))"),
                    (None, false) => format!("::core::cmp::PartialOrd::partial_cmp(a{i}, b{i})"),
                };
                code.push_str(&format!("match {call} {{ Some(Equal) => {{}}, other => return Some(other) }} "));
            }
            code.push_str("Some(Some(Equal))");
            code
        },
        "None",
    ));
    o.push_str("}\n");
    o
}

pub fn render(s: &TypeSpec) -> Option<Rendered> {
    if s.variants.is_empty() {
        return None;
    }
    let has_ord = s.has(Tr::Ord);
    let has_pord = s.has(Tr::PartialOrd);
    let mut o = render_field_oracle(s, has_ord);
    let lawless = s.all_fields().any(|f| {
        !f.ignored(Tr::Ord) && (matches!(f.method(Tr::Ord), Some("m_pcmp_none")) || (f.method(Tr::Ord).is_none() && (f.ty.inst.contains("f32") || f.ty.inst.contains("Inc"))))
    });
    o.push_str("pub fn run(o: &mut Out) {\n    use ::core::cmp::Ordering::*;\n    let xs = vals();\n    let ys = vals();\n    let zs = vals();\n");
    o.push_str("    for (i, a) in xs.iter().enumerate() {\n        for (j, b) in ys.iter().enumerate() {\n");
    o.push_str("            let Some(exp) = oracle_fields(a, b) else { continue };\n");
    o.push_str("            o.tally(\"same_variant_pairs\", 1);\n            if exp.is_none() { o.tally(\"incomparable\", 1); }\n            if exp == Some(Less) || exp == Some(Greater) { o.tally(\"decisive\", 1); }\n");
    if has_ord {
        o.push_str("            let got = ::core::cmp::Ord::cmp(a, b);\n");
        o.push_str("            o.check(Some(got) == exp, || format!(\"cmp(value {i}, value {j}) = {:?}, lexicographic rank order says {:?}\", got, exp));\n");
        if has_pord {
            o.push_str("            let p = ::core::cmp::PartialOrd::partial_cmp(a, b);\n");
            o.push_str("            o.check(p == Some(got), || format!(\"partial_cmp(value {i}, value {j}) = {:?} but cmp = {:?}\", p, got));\n");
        }
    } else {
        o.push_str("            let got = ::core::cmp::PartialOrd::partial_cmp(a, b);\n");
        o.push_str("            o.check(got == exp, || format!(\"partial_cmp(value {i}, value {j}) = {:?}, lexicographic rank order says {:?}\", got, exp));\n");
    }
    o.push_str("        }\n    }\n");
    // the very same object on both sides (aliasing must not change the answer)
    o.push_str("    for (i, a) in xs.iter().enumerate() {\n        let Some(exp) = oracle_fields(a, a) else { continue };\n");
    if has_ord {
        o.push_str("        let got = Some(::core::cmp::Ord::cmp(a, a));\n");
    } else {
        o.push_str("        let got = ::core::cmp::PartialOrd::partial_cmp(a, a);\n");
    }
    o.push_str("        o.check(got == exp, || format!(\"value {i} compared with itself (same object): {:?}, field order says {:?}\", got, exp));\n        o.tally(\"self_comparisons\", 1);\n    }\n");
    if has_ord && !lawless {
        // total (pre)order laws over same-variant triples
        o.push_str("    for (i, a) in xs.iter().enumerate() {\n");
        o.push_str("        o.check(::core::cmp::Ord::cmp(a, &ys[i]) == Equal, || format!(\"cmp(value {i}, itself) is not Equal\"));\n");
        o.push_str("        for (j, b) in ys.iter().enumerate() {\n            if variant_of(a) != variant_of(b) { continue; }\n");
        o.push_str("            let ab = ::core::cmp::Ord::cmp(a, b);\n            let ba = ::core::cmp::Ord::cmp(b, a);\n");
        o.push_str("            o.check(ab == ba.reverse(), || format!(\"antisymmetry fails for values {i},{j}: {:?} vs {:?}\", ab, ba));\n");
        o.push_str("            for (k, c) in zs.iter().enumerate() {\n                if variant_of(c) != variant_of(a) { continue; }\n");
        o.push_str("                let bc = ::core::cmp::Ord::cmp(b, c);\n                let ac = ::core::cmp::Ord::cmp(a, c);\n");
        o.push_str("                if ab != Greater && bc != Greater { o.check(ac != Greater, || format!(\"transitivity fails for values {i},{j},{k}\")); o.tally(\"law_triples\", 1); }\n");
        o.push_str("            }\n        }\n    }\n");
    }
    o.push_str("}\n");
    // non-triviality: a rank permutation different from declaration order, or method+rank, or incomparable values
    let permuted = s.variants.iter().any(|v| {
        let ord = ordered_fields(v);
        ord.len() >= 3 && ord.windows(2).any(|w| w[0] > w[1])
    });
    let method_and_rank = s.all_fields().any(|f| f.attr_for(Tr::Ord).map(|a| a.method().is_some() && a.rank().is_some()).unwrap_or(false));
    let mut classes = vec![];
    if permuted {
        classes.push("rank_permutation".to_string());
    }
    if method_and_rank {
        classes.push("method_and_rank".to_string());
    }
    if lawless {
        classes.push("incomparable_values_possible".to_string());
    }
    classes.push(match (has_pord, has_ord) {
        (true, true) => "both_traits",
        (false, true) => "ord_only",
        _ => "partial_ord_only",
    }
    .to_string());
    if s.all_fields().any(|f| f.attrs.iter().any(|a| a.tr == Tr::PartialOrd)) && has_ord {
        classes.push("attrs_via_PartialOrd".to_string());
    }
    Some(Rendered { observer: o, nontrivial: permuted || method_and_rank || lawless, need_tallies: vec!["decisive"], classes })
}

pub fn run(ctx: &Ctx) -> i32 {
    crate::props::behave::run(ctx, &behaviour())
}

pub fn behaviour() -> Behaviour {
    Behaviour {
        prop: "C03",
        rule: "structs and enum variants with up to 5 fields, PartialOrd alone / Ord alone / both, field attributes carried by Ord(..) or PartialOrd(..), \
               ignore/method/rank in every spelling (negative, string, parenthesised; injective ranks incl. 0, -1, isize::MAX), NaN-like field types; \
               all ordered same-variant pairs are compared with a rendered oracle (ascending effective rank, first non-Equal result, None propagates), \
               partial_cmp == Some(cmp) when both are educed, total-preorder laws on triples with lawful methods; non-trivial = rank order differs from \
               declaration order over >=3 compared fields, or a method combined with a rank, or incomparable values, and a decisive comparison was observed",
        salt: 0xC03,
        cfg,
        adjust,
        render,
        quick: 7000,
        thorough: 20000,
        batch: 25,
        assumptions: &["m_cmp_rev / m_pcmp_rev reverse the order so swapped arguments are visible; m_pcmp_none and Inc/f32 produce None"],
        miri_units: 0,
        extra: None,
    }
}
