//! C11 — automatic bounds are exactly those the generated code needs (semantic, via trait-resolution probes).
use serde_json::json;

use crate::check::{self, Ctx, Failure, RVerdict, Report};
use crate::dna::Dna;
use crate::engine::{self, Unit};
use crate::gen::{self, GenCfg};
use crate::props::common::*;
use crate::spec::*;

fn cfg(d: &mut Dna, explicit_bounds: bool) -> GenCfg {
    let mut c = GenCfg::full();
    c.kinds = vec![Kind::Struct, Kind::Enum, Kind::Union];
    c.trait_pct = 30;
    c.attr_pct = 50;
    c.bounds = explicit_bounds;
    if explicit_bounds {
        c.attr_pct = 70;
    }
    c.type_expr = false;
    // `P: Into<Option<P>>` holds for every P through std's blanket impl, which the marker-type model does not describe
    c.generic_into = false;
    c.reprs = false;
    c.discriminants = false;
    c.raw_idents = false;
    c.partial_types = false;
    c.consts = d.chance(50);
    c.const_pct = 45;
    c.max_variants = 3;
    c.min_variants = 1;
    c.min_type_params = if d.chance(80) { 1 } else { 0 };
    c.min_fields = 1;
    // a stand-alone Eq now and then: the only request under which a field type may mention `Self` (see prepare_with)
    if d.chance(5) {
        c.must = vec![Tr::Eq];
        c.pool = vec![Tr::Eq];
        c.kinds = vec![Kind::Struct, Kind::Enum];
        c.min_type_params = 1;
    }
    c
}

#[derive(Clone, Copy, PartialEq, Eq, Debug)]
enum Ctor {
    Concrete,
    Param,
    Vec,
    Option,
    Box,
    Arr,
    Tup,
    Ref,
    Phantom,
    Wrapper,
    Ptr,
}

fn ctor_of(f: &FTy, params: &[String]) -> (Ctor, Vec<String>) {
    let ps: Vec<String> = f.params.iter().filter(|p| params.contains(p)).cloned().collect();
    let Some(p) = ps.first().cloned() else { return (Ctor::Concrete, vec![]) };
    let s = f.src.as_str();
    let c = if s == p {
        Ctor::Param
    } else if s.starts_with("Vec<") {
        Ctor::Vec
    } else if s.starts_with("Option<") {
        Ctor::Option
    } else if s.starts_with("Box<") {
        Ctor::Box
    } else if s.starts_with('[') {
        Ctor::Arr
    } else if s.starts_with('(') {
        Ctor::Tup
    } else if s.starts_with('&') {
        Ctor::Ref
    } else if s.starts_with("*const") {
        Ctor::Ptr
    } else if s.starts_with("PhantomData<") {
        Ctor::Phantom
    } else if s.starts_with("Wrapper<") || s.starts_with("crate::prelude::homonyms::") {
        Ctor::Wrapper
    } else {
        Ctor::Concrete
    };
    (c, ps)
}

/// does the marker type implement std trait `t`? (read off the derives in the prelude)
fn marker_has(marker: &str, t: Tr) -> bool {
    use Tr::*;
    match marker {
        "Yes" => true,
        "NoDebug" => t != Debug,
        "NoClone" => !matches!(t, Clone | Copy),
        "NoCopy" => t != Copy,
        "NoPartialEq" => !matches!(t, PartialEq | Eq | PartialOrd | Ord),
        "NoEq" => !matches!(t, Eq | PartialOrd | Ord),
        "NoPartialOrd" => !matches!(t, PartialOrd | Ord),
        "NoOrd" => t != Ord,
        "NoHash" => t != Hash,
        "NoDefault" => t != Default,
        "NoInto" => t != Into,
        _ => true,
    }
}

fn marker_for(req: Tr) -> &'static str {
    match req {
        Tr::Debug => "NoDebug",
        Tr::Clone => "NoClone",
        Tr::Copy => "NoCopy",
        Tr::PartialEq | Tr::Eq => "NoPartialEq",
        Tr::PartialOrd => "NoPartialOrd",
        Tr::Ord => "NoOrd",
        Tr::Hash => "NoHash",
        Tr::Default => "NoDefault",
        _ => "NoInto",
    }
}

/// std's documented impls for the constructors (Appendix C of DESIGN.md)
fn implements(req: Tr, f: &FTy, params: &[String], sigma: &[(String, &'static str)]) -> bool {
    let (c, ps) = ctor_of(f, params);
    // every parameter the type mentions must implement the trait (only tuples mention more than one)
    let inner = ps.iter().all(|p| marker_has(sigma.iter().find(|(n, _)| n == p).map(|(_, m)| *m).unwrap_or("Yes"), req));
    use Tr::*;
    match c {
        Ctor::Concrete => true,
        Ctor::Param | Ctor::Wrapper | Ctor::Tup | Ctor::Arr => inner,
        Ctor::Vec => match req {
            Copy => false,
            Default => true,
            _ => inner,
        },
        Ctor::Option => match req {
            Default => true,
            _ => inner,
        },
        Ctor::Box => match req {
            Copy => false,
            _ => inner,
        },
        Ctor::Ref => match req {
            Clone | Copy => true,
            Default => false,
            _ => inner,
        },
        Ctor::Phantom => true,
        Ctor::Ptr => req != Default,
    }
}

/// an enum that educes Copy and Clone and has a `Clone(method = ..)` field: its Clone impl clones field by field (the
/// fields without a method must be Clone) and its Copy impl has predicates of its own (every field Copy)
fn enum_clone_by_field_next_to_copy(s: &TypeSpec) -> bool {
    s.kind == Kind::Enum && s.has(Tr::Copy) && s.has(Tr::Clone) && s.all_fields().any(|f| f.method(Tr::Clone).is_some())
}

/// the trait the automatic mode requires of delegated field types for educed trait `x`
fn required(s: &TypeSpec, x: Tr) -> Tr {
    match x {
        Tr::Clone if s.has(Tr::Copy) && !enum_clone_by_field_next_to_copy(s) => Tr::Copy,
        Tr::Eq => Tr::PartialEq,
        Tr::PartialOrd if s.has(Tr::Ord) => Tr::Ord,
        t => t,
    }
}

/// fields the implementation of `x` delegates to
fn delegated<'a>(s: &'a TypeSpec, x: Tr, target: Option<&str>) -> Vec<&'a FieldSpec> {
    let mut out = Vec::new();
    // companions share the primary's where-clause
    let primary = match x {
        Tr::Eq if s.has(Tr::PartialEq) => Tr::PartialEq,
        Tr::Copy if s.has(Tr::Clone) && !(enum_clone_by_field_next_to_copy(s) && governing(s, Tr::Clone, None).map(|a| a.bound().is_none() || matches!(a.bound(), Some(BoundV::True))).unwrap_or(true)) => Tr::Clone,
        Tr::PartialOrd if s.has(Tr::Ord) => Tr::Ord,
        t => t,
    };
    for (vi, v) in s.variants.iter().enumerate() {
        for f in &v.fields {
            let take = match primary {
                // unions: Debug, PartialEq and Hash work on the bytes and delegate to no field; Clone is `*self` and needs
                // every field to be Copy; Default builds the designated field only
                Tr::Debug | Tr::PartialEq | Tr::Hash if s.kind == Kind::Union => false,
                Tr::Clone if s.kind == Kind::Union => true,
                Tr::Default if s.kind == Kind::Union => (v.fields.len() == 1 || f.attrs.iter().any(|a| a.tr == Tr::Default)) && f.default_expect.is_none(),
                Tr::Copy | Tr::Eq => true,
                // a type-level expression builds the value: nothing is delegated
                Tr::Default if s.attr(Tr::Default).and_then(|a| a.expr()).is_some() => false,
                Tr::Default => {
                    let is_default_variant = s.kind != Kind::Enum || s.variants.len() == 1 || v.attrs.iter().any(|a| a.tr == Tr::Default);
                    is_default_variant && f.default_expect.is_none()
                },
                Tr::Into => {
                    let t = target.unwrap();
                    let des = crate::props::c10::designated(v, t);
                    let me = v.fields.iter().position(|g| std::ptr::eq(g, f));
                    des.is_some() && des == me && f.into_attr(t).and_then(|a| a.method()).is_none() && f.ty.src != t
                },
                t => !f.ignored(t) && f.method(t).is_none(),
            };
            let _ = vi;
            if take {
                out.push(f);
            }
        }
    }
    out
}

/// the attribute whose `bound` parameter governs the where-clause of x's impl (companions share the primary's)
fn governing<'a>(s: &'a TypeSpec, x: Tr, target: Option<&str>) -> Option<&'a TAttr> {
    match x {
        Tr::Eq if s.has(Tr::PartialEq) => s.attr(Tr::PartialEq),
        Tr::Copy if s.has(Tr::Clone) => s.attr(Tr::Clone),
        Tr::PartialOrd if s.has(Tr::Ord) => s.attr(Tr::Ord),
        Tr::Into => s.traits.iter().find(|a| a.tr == Tr::Into && a.into_ty.as_deref() == target),
        t => s.attr(t),
    }
}

fn trait_of_path(p: &str) -> Option<Tr> {
    let last = p.trim().rsplit("::").next().unwrap_or("").split('<').next().unwrap_or("").trim();
    ALL_TRAITS.iter().copied().find(|t| t.name() == last)
}

fn expected(s: &TypeSpec, x: Tr, target: Option<&str>, params: &[String], sigma: &[(String, &'static str)]) -> bool {
    let req = required(s, x);
    // explicit bound modes replace the automatic predicates (C12's semantic half)
    match governing(s, x, target).and_then(|a| a.bound()) {
        Some(BoundV::False) => return true,
        Some(BoundV::All) => return sigma.iter().all(|(_, m)| marker_has(m, req)),
        Some(BoundV::Custom(preds)) => {
            return preds.iter().all(|p| {
                let Some((lhs, rhs)) = p.split_once(':') else { return true };
                let Some((_, m)) = sigma.iter().find(|(n, _)| n == lhs.trim()) else { return true };
                match trait_of_path(rhs) {
                    Some(t) => marker_has(m, t),
                    None => true,
                }
            });
        },
        _ => {},
    }
    let fields_ok = delegated(s, x, target).iter().all(|f| implements(req, &f.ty, params, sigma));
    // supertraits on the type itself: educed ones are conditional, hand-written ones are unconditional
    let supers: &[Tr] = match x {
        Tr::Eq => &[Tr::PartialEq],
        Tr::PartialOrd => &[Tr::PartialEq],
        Tr::Ord => &[Tr::Eq, Tr::PartialOrd],
        Tr::Copy => &[Tr::Clone],
        _ => &[],
    };
    let supers_ok = supers.iter().all(|sup| {
        // a companion is emitted with the primary's own predicates, so it never constrains more than the primary
        let companion_of_x = matches!((x, sup), (Tr::Ord, Tr::PartialOrd) | (Tr::Eq, Tr::PartialEq) | (Tr::Copy, Tr::Clone)) && false;
        if !s.has(*sup) && x == Tr::Copy && *sup == Tr::Clone {
            // the hand-written Clone of the harness is conditional on every type parameter being Clone
            sigma.iter().all(|(_, m)| marker_has(m, Tr::Clone))
        } else if companion_of_x || !s.has(*sup) {
            true
        } else {
            expected(s, *sup, None, params, sigma)
        }
    });
    fields_ok && supers_ok
}

fn trait_path(x: Tr, target: Option<&str>) -> String {
    match x {
        Tr::Into => format!("::core::convert::Into<{}>", target.unwrap()),
        t => t.std_path().to_string(),
    }
}

pub struct Case {
    pub spec: TypeSpec,
    pub unit: Unit,
    pub nontrivial: bool,
    pub probes: usize,
    pub expected_false: usize,
    pub classes: Vec<String>,
}

pub fn prepare(dna: &[u16]) -> Option<Case> {
    prepare_with(dna, false)
}

pub fn prepare_with(dna: &[u16], explicit_bounds: bool) -> Option<Case> {
    let mut d = Dna::new(dna);
    let c = cfg(&mut d, explicit_bounds);
    let built = gen::build(&mut d, &c);
    let mut s = built.spec;
    if s.gens.is_empty() || s.variants.is_empty() {
        return None;
    }
    // a field whose type mentions `Self` next to a parameter. Only under a stand-alone Eq: every other automatic
    // where-clause would have to prove `Self: Trait` from itself (a cycle rustc reports as an overflow), which is why
    // C01 leaves such types out; here the hand-written PartialEq is unconditional, so the predicate is decidable
    let mut self_field = false;
    if s.kind != Kind::Union && s.traits.len() == 1 && s.traits[0].tr == Tr::Eq && !s.gens.types.is_empty() {
        if let Some(vi) = s.variants.iter().position(|v| v.shape != Shape::Unit) {
            if s.gens.lifetimes.is_empty() {
                s.gens.lifetimes.push(("sr".to_string(), vec![]));
            }
            let lt = s.gens.lifetimes[0].0.clone();
            let tp = d.choose(&s.gens.types).clone();
            let name = if s.variants[vi].shape == Shape::Named { Some("selfref".to_string()) } else { None };
            let ty = FTy {
                src: format!("Option<(&'{lt} Self, {})>", tp.name),
                inst: format!("Option<(&'static {}, {})>", s.inst_ty(), tp.inst),
                vals: vec!["None".to_string()],
                caps: 0,
                params: vec![tp.name.clone(), format!("'{lt}")],
                refs: 0,
                default_val: None,
                clone_methods: vec![],
            };
            s.variants[vi].fields.push(FieldSpec { name, ty, attrs: vec![], split: 0, raw: vec![], default_expect: None, noise: vec![] });
            self_field = true;
        }
    }
    // Default from a type-level expression on a generic enum: no field is defaulted, so no parameter may be constrained
    let mut type_expr_generic = false;
    if s.kind == Kind::Enum && s.has(Tr::Default) && !s.gens.types.is_empty() && s.attr(Tr::Default).map(|a| a.expr().is_none() && a.bound().is_none()).unwrap_or(false) {
        let tparams: Vec<String> = s.gens.types.iter().map(|t| t.name.clone()).collect();
        let cparams: Vec<String> = s.gens.consts.iter().map(|t| t.name.clone()).collect();
        // a variant that can be written down without a value of a parameter's type (its fields mention none), in the
        // expression syntax the shipping build parses
        let writable = |v: &VariantSpec| {
            v.fields.iter().all(|f| !f.ty.params.iter().any(|p| tparams.contains(p) || cparams.contains(p)) && syn::parse_str::<syn::Expr>(&f.ty.vals[0]).is_ok())
        };
        if let Some(vi) = s.variants.iter().position(|v| writable(v)) {
            if d.chance(60) {
                let e = s.value_expr(vi, &vec![0; s.variants[vi].fields.len()]);
                let sp = d.byte();
                if let Some(a) = s.traits.iter_mut().find(|a| a.tr == Tr::Default) {
                    a.params.push((TParam::Expr(e), sp));
                }
                for v in s.variants.iter_mut() {
                    v.attrs.retain(|a| a.tr != Tr::Default);
                    for f in v.fields.iter_mut() {
                        f.attrs.retain(|a| a.tr != Tr::Default);
                        f.default_expect = None;
                    }
                }
                type_expr_generic = true;
            }
        }
    }
    let known = check::load_known();
    if crate::known::pre_matches(&known, "C01", &s) {
        return None;
    }
    let params: Vec<String> = s.gens.types.iter().map(|t| t.name.clone()).collect();
    let mut o = String::from("pub fn run(o: &mut Out) {\n");
    let mut probes = 0;
    let mut expected_false = 0;
    let mut educed: Vec<(Tr, Option<String>)> = Vec::new();
    for a in &s.traits {
        match a.tr {
            Tr::Deref | Tr::DerefMut => {},
            Tr::Into => educed.push((Tr::Into, a.into_ty.clone())),
            t => educed.push((t, None)),
        }
    }
    let mut table_checks: std::collections::BTreeSet<String> = Default::default();
    for (x, target) in &educed {
        let req = required(&s, *x);
        // a second failing marker for Copy: a parameter that is not even Clone (it matters where the parameter only
        // occurs in positions that are Copy whatever it is, and for the `Self: Clone` supertrait predicate)
        let nos: Vec<&'static str> = if req == Tr::Copy { vec![marker_for(req), "NoClone"] } else { vec![marker_for(req)] };
        for (ni, no) in nos.iter().copied().enumerate() {
        for mask in 0..(1u32 << params.len()) {
            if ni > 0 && mask == 0 {
                continue;
            }
            let sigma: Vec<(String, &'static str)> = params.iter().enumerate().map(|(i, p)| (p.clone(), if mask & (1 << i) != 0 { no } else { "Yes" })).collect();
            // the instantiation must satisfy the type's own declared bounds
            let violates = s.gens.types.iter().zip(sigma.iter()).any(|(tp, (_, m))| {
                let mut bs: Vec<String> = tp.bounds.clone();
                for w in &s.gens.where_preds {
                    if let Some(rest) = w.strip_prefix(&format!("{}: ", tp.name)) {
                        bs.extend(rest.split(" + ").map(|x| x.to_string()));
                    }
                }
                bs.iter().any(|b| (b.ends_with("Clone") && !marker_has(m, Tr::Clone)) || (b.ends_with("Copy") && !marker_has(m, Tr::Copy)))
            });
            if violates {
                continue;
            }
            let ty = format!("{}{}", s.name, s.gens.inst_with(&sigma.iter().map(|(_, m)| m.to_string()).collect::<Vec<_>>()));
            let exp = expected(&s, *x, target.as_deref(), &params, &sigma);
            let tp = trait_path(*x, target.as_deref());
            o.push_str(&format!(
                "    {{ let got = impls!({ty}: {tp}); o.check(got == {exp}, || format!(\"{ty}: {tp} is {{}}, the delegated fields say {exp}\", got)); }}\n"
            ));
            probes += 1;
            if !exp {
                expected_false += 1;
            }
            // self-validation of the std-impl table for every delegated field type under this instantiation
            for f in delegated(&s, *x, target.as_deref()) {
                let (c, ps) = ctor_of(&f.ty, &params);
                if c == Ctor::Concrete {
                    continue;
                }
                let mut fty = f.ty.src.clone();
                for l in &s.gens.lifetimes {
                    fty = fty.replace(&format!("'{}", l.0), "'static");
                }
                fty = subst_param(&fty, "Self", &ty);
                for p in &ps {
                    let m = sigma.iter().find(|(n, _)| n == p).map(|(_, m)| *m).unwrap_or("Yes");
                    fty = subst_param(&fty, p, m);
                }
                let reqp = match req {
                    Tr::Into => format!("::core::convert::Into<{}>", target.clone().unwrap_or_default()),
                    t => t.std_path().to_string(),
                };
                let e = implements(req, &f.ty, &params, &sigma);
                table_checks.insert(format!(
                    "    if impls!({fty}: {reqp}) != {e} {{ println!(\"F {{}} HARNESS std-impl table wrong for {fty}: {reqp}\", o.ty); o.fails += 1; }}\n"
                ));
            }
        }
        }
    }
    for t in &table_checks {
        o.push_str(t);
    }
    o.push_str(&format!("    o.tally(\"probes\", {probes});\n    o.tally(\"expected_false\", {expected_false});\n    o.tally(\"table_self_checks\", {});\n}}\n", table_checks.len()));
    // a parameter that occurs only in non-delegated positions for some educed trait
    let unconstrained = educed.iter().any(|(x, t)| {
        let del = delegated(&s, *x, t.as_deref());
        params.iter().any(|p| s.all_fields().any(|f| f.ty.params.contains(p)) && !del.iter().any(|f| f.ty.params.contains(p) && ctor_of(&f.ty, &params).0 != Ctor::Phantom))
    });
    let body = format!(
        "{}{}{}\npub mod obs {{\n#![allow(warnings)]\nuse super::*;\n{}}}\npub fn run(o: &mut Out) {{ obs::run(o) }}\n",
        std_header(),
        s.render_def(),
        s.render_support_impls(),
        o
    );
    let mut classes: Vec<String> = built.classes.iter().map(|c| c.to_string()).collect();
    for (x, _) in &educed {
        classes.push(format!("probe_{}", x.name()));
    }
    if unconstrained {
        classes.push("parameter_only_in_undelegated_positions".into());
    }
    if self_field {
        classes.push("field_type_mentions_Self".into());
    }
    if type_expr_generic {
        classes.push("type_level_default_expression_on_a_generic_enum".into());
    }
    let explicit = s.traits.iter().any(|a| matches!(a.bound(), Some(BoundV::All) | Some(BoundV::Custom(_)) | Some(BoundV::False)));
    if explicit_bounds && !explicit {
        return None;
    }
    for a in &s.traits {
        match a.bound() {
            Some(BoundV::All) => classes.push("mode_all".into()),
            Some(BoundV::Custom(_)) => classes.push("mode_custom".into()),
            Some(BoundV::False) => classes.push("mode_false".into()),
            _ => {},
        }
    }
    let nt = if explicit_bounds { explicit && expected_false > 0 } else { unconstrained && expected_false > 0 };
    Some(Case { spec: s, unit: Unit { body, has_run: true }, nontrivial: nt, probes, expected_false, classes })
}

fn subst_param(ty: &str, p: &str, with: &str) -> String {
    // replace the identifier `p` (whole word) by `with`
    let mut out = String::new();
    let chars: Vec<char> = ty.chars().collect();
    let mut i = 0;
    while i < chars.len() {
        if chars[i].is_alphanumeric() || chars[i] == '_' {
            let st = i;
            while i < chars.len() && (chars[i].is_alphanumeric() || chars[i] == '_') {
                i += 1;
            }
            let w: String = chars[st..i].iter().collect();
            if w == p && (st == 0 || chars[st - 1] != '\'') {
                out.push_str(with);
            } else {
                out.push_str(&w);
            }
        } else {
            out.push(chars[i]);
            i += 1;
        }
    }
    out
}

/// evaluate `n` generated cases and fold the outcome into `rep` (shared by C11 and by C12's semantic lane)
pub fn lane(ctx: &Ctx, rep: &mut Report, so: &std::path::Path, n: usize, salt: u64, explicit_bounds: bool, tag: &str) {
    let trees = check::draw(ctx.seed, salt, n, 520);
    let mut cases: Vec<(usize, Case)> = Vec::new();
    for (i, t) in trees.iter().enumerate() {
        match prepare_with(&t.current(), explicit_bounds) {
            Some(c) => cases.push((i, c)),
            None => rep.count("probe_lane_skipped(no type parameter / no explicit mode / known C01 finding)", 1),
        }
    }
    let units: Vec<Unit> = cases.iter().map(|(_, c)| c.unit.clone()).collect();
    let (outs, stray) = check::eval_units(tag, &units, so, 25, true);
    for s in stray.iter().take(3) {
        rep.inconclusive.push(format!("diagnostic outside any generated type: {s}"));
    }
    for (k, o) in outs.iter().enumerate() {
        let (ti, c) = &cases[k];
        rep.evaluations += 1;
        for cl in &c.classes {
            rep.class(cl);
        }
        rep.count("probes", c.probes as u64);
        rep.count("probes_expected_false", c.expected_false as u64);
        if c.nontrivial {
            rep.nontrivial.insert(fnv64(&c.spec.render_def()));
        }
        if rep.samples.len() < 4 && k % 41 == 0 {
            rep.sample(json!({"definition": c.spec.render_def(), "observer_excerpt": c.unit.body.chars().rev().take(900).collect::<String>().chars().rev().collect::<String>()}));
        }
        if let RVerdict::Fail(m) = check::judge_default(o, true) {
            if m.contains("HARNESS") {
                rep.inconclusive.push(format!("oracle self-validation failed: {m}"));
                continue;
            }
            rep.violations.push(Failure { msg: m, dna: trees[*ti].current(), variant: "probe".into(), source: c.spec.render_def(), unit_body: Some(c.unit.body.clone()) });
        }
    }
    check::clean_work(tag);
}

pub fn run(ctx: &Ctx) -> i32 {
    if ctx.replay.is_some() {
        return check::replay_unit(ctx);
    }
    let mut rep = Report::new(
        ctx,
        "generic types (1..3 type parameters, optional lifetimes/const parameters) whose fields apply P, Vec<P>, Option<P>, Box<P>, [P;2], (P,u8), &'a P, \
         PhantomData<P>, Wrapper<P> or concrete types, with ignore/method/expression deciding delegation, every trait and the companions; every instantiation \
         of the parameters with Yes / NoX marker types is probed with a compile-time trait-resolution test and compared with the model (all delegated \
         fields implement the required trait, per std's documented impls, and the educed supertraits apply); the std-impl table probes itself in the same \
         program; non-trivial = some parameter occurs only in non-delegated positions for an educed trait and at least one probe is expected false",
    );
    rep.assumptions.push("the std-impl table covers ten type constructors and is self-checked by probes at run time".into());
    let so = match engine::build_proc_macro() {
        Ok(s) => s,
        Err(e) => {
            rep.inconclusive.push(e.0);
            return rep.finish();
        },
    };
    let n = ctx.scale(12000, 40000);
    lane(ctx, &mut rep, &so, n, 0xC11, false, "C11");
    rep.finish()
}
