//! helpers shared by the property modules
#![allow(dead_code)]

use crate::check::{self, Ctx};
use crate::dna::Dna;
use crate::engine;
use crate::gen::{self, GenCfg};
use crate::spec::*;

pub fn std_header() -> &'static str {
    "use super::prelude::*;\nuse educe::Educe;\n"
}

/// does any field or variant carry an attribute?
pub fn has_inner_attrs(s: &TypeSpec) -> bool {
    s.variants.iter().any(|v| !v.attrs.is_empty() || v.fields.iter().any(|f| !f.attrs.is_empty()))
}

pub fn cfg_by_name(name: &str) -> GenCfg {
    match name {
        "full" => GenCfg::full(),
        _ => GenCfg::full(),
    }
}

/// `vcheck dump <cfg> <n>`: print generated definitions and their in-process expansion status
pub fn dump(ctx: &Ctx, args: &[String]) -> i32 {
    let cfg = cfg_by_name(args.get(1).map(|s| s.as_str()).unwrap_or("full"));
    let n: usize = args.get(2).and_then(|s| s.parse().ok()).unwrap_or(5);
    let trees = check::draw(ctx.seed, 0xD0, n, 400);
    for t in trees {
        let dna = t.current();
        let mut d = Dna::new(&dna);
        let b = gen::build(&mut d, &cfg);
        let def = b.spec.render_def_with("", true);
        println!("// classes: {:?}  dna_used={}", b.classes, d.used());
        println!("{}{}", b.spec.render_def(), b.spec.render_support_impls());
        match engine::expand_src(&def) {
            engine::Expansion::Ok(_) => println!("// expansion: ok\n"),
            e => println!("// expansion: {:?}\n", e),
        }
    }
    0
}
