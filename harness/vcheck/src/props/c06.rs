//! C06 — Debug renders the effective shape exactly like core::fmt's builders.
use crate::check::Ctx;
use crate::dna::Dna;
use crate::gen::GenCfg;
use crate::known::debug_variant_view;
use crate::props::behave::*;
use crate::spec::*;

fn cfg(d: &mut Dna) -> GenCfg {
    let mut c = GenCfg::behaviour(&[Tr::Debug], &[Tr::PartialEq, Tr::Clone, Tr::Hash]);
    c.trait_pct = 15;
    c.attr_pct = if d.chance(80) { 55 } else { 0 };
    c.max_variants = 4;
    c.raw_idents = false;
    c
}

/// effective name of variant `vi` (None = no name shown)
pub fn effective_name(s: &TypeSpec, vi: usize) -> Option<String> {
    let ta = s.attr(Tr::Debug);
    match s.kind {
        Kind::Enum => {
            let enum_name: Option<String> = match ta.and_then(|a| a.name()) {
                Some(NameV::True) => Some(s.name.clone()),
                Some(NameV::Custom(n)) => Some(n.clone()),
                _ => None,
            };
            let v = &s.variants[vi];
            let va = v.attrs.iter().find(|a| a.tr == Tr::Debug);
            let vname: Option<String> = match va.and_then(|a| a.name()) {
                Some(NameV::False) => None,
                Some(NameV::Custom(n)) => Some(n.clone()),
                _ => Some(v.name.clone()),
            };
            match (enum_name, vname) {
                (Some(e), Some(v)) => Some(format!("{e}::{v}")),
                (Some(e), None) => Some(e),
                (None, v) => v,
            }
        },
        _ => match ta.and_then(|a| a.name()) {
            Some(NameV::False) => None,
            Some(NameV::Custom(n)) => Some(n.clone()),
            _ => Some(s.name.clone()),
        },
    }
}

pub fn render(s: &TypeSpec) -> Option<Rendered> {
    if s.variants.is_empty() {
        return None;
    }
    let ty = s.inst_ty();
    let mut o = String::new();
    o.push_str("pub struct RawKey(pub &'static str);\nimpl ::core::fmt::Debug for RawKey { fn fmt(&self, f: &mut ::core::fmt::Formatter<'_>) -> ::core::fmt::Result { f.write_str(self.0) } }\n");
    o.push_str("pub struct Via<'x, T: ?Sized>(pub &'x T, pub fn(&T, &mut ::core::fmt::Formatter<'_>) -> ::core::fmt::Result);\n");
    o.push_str("impl<'x, T: ?Sized> ::core::fmt::Debug for Via<'x, T> { fn fmt(&self, f: &mut ::core::fmt::Formatter<'_>) -> ::core::fmt::Result { (self.1)(self.0, f) } }\n");
    o.push_str(&format!("pub struct OracleDbg<'x>(pub &'x {ty});\nimpl<'x> ::core::fmt::Debug for OracleDbg<'x> {{\n  fn fmt(&self, f: &mut ::core::fmt::Formatter<'_>) -> ::core::fmt::Result {{\n    let a = self.0;\n    let b = self.0;\n"));
    o.push_str(&match_same_variant(
        s,
        |vi| {
            let v = &s.variants[vi];
            let (_, named, _) = debug_variant_view(s, vi);
            let name = effective_name(s, vi);
            let mut code = touch_all(v);
            let shown: Vec<(usize, &FieldSpec)> = v.fields.iter().enumerate().filter(|(_, f)| !f.ignored(Tr::Debug)).collect();
            let val = |i: usize, f: &FieldSpec| match f.method(Tr::Debug) {
                Some(m) => format!("&Via(a{i}, {m})"),
                None => format!("a{i}"),
            };
            let key = |i: usize, f: &FieldSpec| -> String {
                f.attr_for(Tr::Debug).and_then(|a| a.name()).map(|s| s.to_string()).or_else(|| f.name.clone()).unwrap_or_else(|| format!("_{i}"))
            };
            if s.kind == Kind::Enum && v.shape == Shape::Unit {
                code.push_str(&format!("f.write_str({:?})", name.clone().unwrap_or_default()));
                return code;
            }
            if named {
                match &name {
                    Some(n) => {
                        code.push_str(&format!("let mut bld = f.debug_struct({:?}); ", n));
                        for (i, f) in &shown {
                            code.push_str(&format!("bld.field({:?}, {}); ", key(*i, f), val(*i, f)));
                        }
                        code.push_str("bld.finish()");
                    },
                    None => {
                        code.push_str("let mut bld = f.debug_map(); ");
                        for (i, f) in &shown {
                            code.push_str(&format!("bld.entry(&RawKey({:?}), {}); ", key(*i, f), val(*i, f)));
                        }
                        code.push_str("bld.finish()");
                    },
                }
            } else {
                code.push_str(&format!("let mut bld = f.debug_tuple({:?}); ", name.clone().unwrap_or_default()));
                for (i, f) in &shown {
                    code.push_str(&format!("bld.field({}); ", val(*i, f)));
                }
                code.push_str("bld.finish()");
            }
            code
        },
        "unreachable!()",
    ));
    o.push_str("  }\n}\n");
    // the std twin: same definition with #[derive(Debug)] when no educe parameter is used anywhere
    let plain = s.attr(Tr::Debug).map(|a| a.params.is_empty()).unwrap_or(false)
        && s.variants.iter().all(|v| !v.attrs.iter().any(|a| a.tr == Tr::Debug) && v.fields.iter().all(|f| f.attr_for(Tr::Debug).is_none()));
    let mut twin = String::new();
    if plain {
        let mut t = s.clone();
        t.name = format!("{}Twin", s.name);
        t.traits.clear();
        for v in t.variants.iter_mut() {
            v.attrs.clear();
            for f in v.fields.iter_mut() {
                f.attrs.clear();
            }
        }
        twin.push_str(&t.render_def_with("Debug", false));
        let tty = t.inst_ty();
        twin.push_str(&format!("pub fn twin_vals() -> ::std::vec::Vec<{tty}> {{\n    let mut v: ::std::vec::Vec<{tty}> = ::std::vec::Vec::new();\n"));
        for (vi, ix) in t.value_indices() {
            twin.push_str(&format!("    {{ let x: {tty} = {}; v.push(x); }}\n", t.value_expr(vi, &ix)));
        }
        twin.push_str("    v\n}\n");
    }
    o.push_str(&twin);
    o.push_str("pub fn run(o: &mut Out) {\n    let xs = vals();\n");
    if plain {
        o.push_str("    let ts = twin_vals();\n");
    }
    o.push_str("    for (i, x) in xs.iter().enumerate() {\n");
    o.push_str("        let got = format!(\"{:?}\", x);\n        let exp = format!(\"{:?}\", OracleDbg(x));\n");
    o.push_str("        o.check(got == exp, || format!(\"value {i} {{:?}}: educe prints `{got}`, the builders print `{exp}`\"));\n");
    o.push_str("        let got = format!(\"{:#?}\", x);\n        let exp = format!(\"{:#?}\", OracleDbg(x));\n");
    o.push_str("        o.check(got == exp, || format!(\"value {i} {{:#?}}: educe prints `{got}`, the builders print `{exp}`\"));\n");
    o.push_str("        let got = format!(\"{:>30?}|{:<3?}\", x, x);\n        let exp = format!(\"{:>30?}|{:<3?}\", OracleDbg(x), OracleDbg(x));\n");
    o.push_str("        o.check(got == exp, || format!(\"value {i} with width flags: educe prints `{got}`, the builders print `{exp}`\"));\n");
    // hex, sign and precision flags travel through the builders to every field (and to custom methods through `f`)
    o.push_str("        let got = format!(\"{:#06x?}|{:+.1?}\", x, x);\n        let exp = format!(\"{:#06x?}|{:+.1?}\", OracleDbg(x), OracleDbg(x));\n");
    o.push_str("        o.check(got == exp, || format!(\"value {i} with hex / sign / precision flags: educe prints `{got}`, the builders print `{exp}`\"));\n");
    o.push_str("        o.tally(\"formatted\", 4);\n");
    if plain {
        let tn = format!("{}Twin", s.name);
        o.push_str(&format!("        let std1 = format!(\"{{:?}}\", ts[i]).replace({:?}, {:?});\n", tn, s.name));
        o.push_str(&format!("        let std2 = format!(\"{{:#?}}\", ts[i]).replace({:?}, {:?});\n", tn, s.name));
        o.push_str("        o.check(format!(\"{:?}\", x) == std1, || format!(\"value {i}: educe `{:?}` vs #[derive(Debug)] `{}`\", x, std1));\n");
        o.push_str("        o.check(format!(\"{:#?}\", x) == std2, || format!(\"value {i} pretty: educe `{:#?}` vs #[derive(Debug)] `{}`\", x, std2));\n");
        o.push_str("        o.tally(\"std_twin\", 2);\n");
    }
    o.push_str("    }\n}\n");
    let configured = !plain;
    let mut classes = vec![];
    if plain {
        classes.push("std_twin".to_string());
    }
    for vi in 0..s.variants.len() {
        let (name, named, shown) = debug_variant_view(s, vi);
        if !name {
            classes.push("nameless".to_string());
        }
        let natural = s.variants[vi].shape == Shape::Named || (s.kind != Kind::Enum && s.variants[vi].shape == Shape::Unit);
        if named != natural && s.variants[vi].shape != Shape::Unit {
            classes.push("style_flipped".to_string());
        }
        if shown < s.variants[vi].fields.len() {
            classes.push("ignored_field".to_string());
        }
    }
    classes.sort();
    classes.dedup();
    if s.all_fields().any(|f| f.method(Tr::Debug).is_some()) {
        classes.push("method_field".to_string());
    }
    if s.all_fields().any(|f| f.attr_for(Tr::Debug).and_then(|a| a.name()).is_some()) {
        classes.push("renamed_field".to_string());
    }
    Some(Rendered { observer: o, nontrivial: configured || plain, need_tallies: vec!["formatted"], classes })
}

pub fn run(ctx: &Ctx) -> i32 {
    crate::props::behave::run(ctx, &behaviour())
}

/// a rename that collides with the key of another shown field: the builders print repeated keys without complaint, so the
/// request is legal and its output is defined
fn adjust(s: &mut TypeSpec, d: &mut Dna) -> bool {
    for v in s.variants.iter_mut() {
        let n = v.fields.len();
        if n < 2 || !d.chance(25) {
            continue;
        }
        let keys: Vec<String> = v.fields.iter().enumerate().map(|(i, f)| f.name.clone().unwrap_or_else(|| format!("_{i}"))).collect();
        let renamed: Vec<usize> = (0..n).filter(|i| v.fields[*i].attr_for(Tr::Debug).map(|a| a.name().is_some() && !a.ignore()).unwrap_or(false)).collect();
        if renamed.is_empty() {
            continue;
        }
        let i = *d.choose(&renamed);
        let mut j = d.pick(n - 1);
        if j >= i {
            j += 1;
        }
        let key = keys[j].trim_start_matches("r#").to_string();
        for a in v.fields[i].attrs.iter_mut().filter(|a| a.tr == Tr::Debug) {
            for (p, _) in a.params.iter_mut() {
                if let FParam::Name(nm) = p {
                    *nm = key.clone();
                }
            }
        }
    }
    true
}

pub fn behaviour() -> Behaviour {
    Behaviour {
        prop: "C06",
        rule: "structs and enums with Debug educed: type-level name (default/false/custom, Debug = X shorthand), enum name = true, variant name, \
               named_field both ways on structs and variants, field ignore/name/rename/method, generic types; ordinary identifiers only; every value is \
               formatted with {:?}, {:#?}, width, hex, sign and precision flags and compared byte-for-byte with an oracle written with core::fmt's debug_struct / debug_tuple / \
               debug_map / write_str for the effective shape; requests without any educe parameter are also compared with a #[derive(Debug)] twin; \
               non-trivial = a non-default name/named_field/rename/ignore/method somewhere, or the twin clause; distinct by definition hash",
        salt: 0xC06,
        cfg,
        adjust,
        render,
        quick: 7000,
        thorough: 20000,
        batch: 25,
        assumptions: &["the statement's std-equivalence clause is limited to ordinary identifiers, so raw identifiers are left to C01"],
        miri_units: 0,
        extra: None,
    }
}
