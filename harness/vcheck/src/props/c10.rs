//! C10 — Into returns the designated field for every requested target type (and for no other).
use crate::check::Ctx;
use crate::dna::Dna;
use crate::gen::GenCfg;
use crate::props::behave::*;
use crate::spec::*;
use crate::types::{converts, INTO_TARGETS};

fn cfg(d: &mut Dna) -> GenCfg {
    let mut c = GenCfg::behaviour(&[Tr::Into], &[Tr::Debug, Tr::Clone]);
    c.trait_pct = 10;
    c.attr_pct = 30;
    c.max_variants = 4;
    c.min_variants = 1;
    c.partial_types = false;
    let _ = d;
    c
}

/// a target that borrows for one of the type's own lifetimes: `Into(&'a u16)` on `S<'a>`, served in every variant by a
/// field of exactly that type (marked, or found as the sole / the unique same-typed field)
fn adjust(s: &mut TypeSpec, d: &mut Dna) -> bool {
    let transparent = s.repr.as_deref().map(|r| r.contains("transparent")).unwrap_or(false);
    if s.kind == Kind::Union || transparent || s.variants.is_empty() || s.variants.iter().any(|v| v.shape == Shape::Unit) || !d.chance(15) {
        return true;
    }
    let bases = crate::types::base_types();
    let base = &bases[[0usize, 1, 2, 14][d.pick(4)]];
    let fresh = s.gens.lifetimes.is_empty();
    let lt = if fresh { "q".to_string() } else { s.gens.lifetimes[d.pick(s.gens.lifetimes.len())].0.clone() };
    let Some(fty) = crate::types::wrap(crate::types::Wrapk::Ref, base, Some(&lt)) else { return true };
    let tgt = fty.src.clone();
    let erased = crate::known::into_key(&tgt);
    if s.into_targets().iter().any(|a| a.into_ty.as_deref().map(crate::known::into_key) == Some(erased.clone())) {
        return true;
    }
    if fresh {
        s.gens.lifetimes.push((lt.clone(), vec![]));
    }
    let at = d.pick(s.traits.len() + 1);
    s.traits.insert(at, TAttr { tr: Tr::Into, into_ty: Some(tgt.clone()), params: vec![], sp: 0 });
    for v in s.variants.iter_mut() {
        let same_typed = v.fields.iter().any(|f| crate::known::into_key(&f.ty.src) == erased);
        let mark = !v.fields.is_empty() && (same_typed || d.chance(60));
        let name = if v.shape == Shape::Named { Some("lent".to_string()) } else { None };
        let mut attrs = vec![];
        if mark {
            attrs.push(FAttr { tr: Tr::Into, into_ty: Some(tgt.clone()), params: vec![], sp: 0 });
        }
        let f = FieldSpec { name, ty: fty.clone(), attrs, split: 0, raw: vec![], default_expect: None, noise: vec![] };
        let pos = d.pick(v.fields.len() + 1);
        v.fields.insert(pos, f);
    }
    true
}

/// the field the documentation designates for `target` in variant `v`
pub fn designated(v: &VariantSpec, target: &str) -> Option<usize> {
    if let Some(i) = v.fields.iter().position(|f| f.into_attr(target).is_some()) {
        return Some(i);
    }
    if v.fields.len() == 1 {
        return Some(0);
    }
    let same: Vec<usize> = v.fields.iter().enumerate().filter(|(_, f)| crate::known::into_key(&f.ty.src) == crate::known::into_key(target)).map(|(i, _)| i).collect();
    if same.len() == 1 {
        Some(same[0])
    } else {
        None
    }
}

pub fn render(s: &TypeSpec) -> Option<Rendered> {
    if s.variants.is_empty() {
        return None;
    }
    let ty = s.inst_ty();
    let targets: Vec<String> = s.into_targets().iter().filter_map(|a| a.into_ty.clone()).collect();
    let mut o = String::from("pub fn run(o: &mut Out) {\n");
    let mut n_checks = 0;
    for tsrc in &targets {
        // the target as written may mention the type's parameters; values live at the instantiation
        let t = &s.inst_of(tsrc);
        for (vi, ix) in s.value_indices() {
            let v = &s.variants[vi];
            let k = designated(v, tsrc)?;
            let f = &v.fields[k];
            let val = &f.ty.vals[ix[k] % f.ty.vals.len()];
            let exp = match f.into_attr(tsrc).and_then(|a| a.method()) {
                Some(m) => format!("{m}({{ let v: {} = {val}; v }})", f.ty.inst),
                None if f.ty.inst == *t => val.clone(),
                None => format!("<{t} as ::core::convert::From<{}>>::from({val})", f.ty.inst),
            };
            o.push_str(&format!(
                "    {{ let x: {ty} = {}; let got: {t} = ::core::convert::Into::<{t}>::into(x); let exp: {t} = {exp}; o.check(got == exp, || format!(\"Into<{t}> of variant {vi} (field {k}): got {{:?}}, expected {{:?}}\", got, exp)); }}\n",
                s.value_expr(vi, &ix)
            ));
            n_checks += 1;
        }
    }
    o.push_str(&format!("    o.tally(\"conversions\", {n_checks});\n"));
    for u in INTO_TARGETS {
        if !targets.iter().any(|t| t == u) {
            o.push_str(&format!("    o.check(!impls!({ty}: ::core::convert::Into<{u}>), || \"Into<{u}> is implemented although it was not requested\".to_string());\n"));
        } else {
            o.push_str(&format!("    o.check(impls!({ty}: ::core::convert::Into<{u}>), || \"Into<{u}> was requested but is not implemented\".to_string());\n"));
        }
    }
    o.push_str("    o.tally(\"target_probes\", 8);\n}\n");
    let two_candidates = s.variants.iter().any(|v| targets.iter().any(|t| v.fields.iter().filter(|f| f.ty.inst == *t || converts(&f.ty.inst, t)).count() >= 2));
    let mut classes = vec![format!("targets_{}", targets.len())];
    if two_candidates {
        classes.push("several_candidate_fields".to_string());
    }
    if s.all_fields().any(|f| f.attrs.iter().any(|a| a.tr == Tr::Into && a.method().is_some())) {
        classes.push("into_method".to_string());
    }
    if targets.iter().any(|t| s.inst_of(t) != *t) {
        classes.push("target_mentions_type_parameter".to_string());
    }
    if targets.iter().any(|t| t.starts_with("&'") && !t.starts_with("&'static")) {
        classes.push("target_borrows_for_a_lifetime_of_the_type".to_string());
    }
    if s.variants.iter().any(|v| targets.iter().any(|t| v.fields.len() > 1 && v.fields.iter().all(|f| f.into_attr(t).is_none()))) {
        classes.push("found_by_unique_type".to_string());
    }
    Some(Rendered { observer: o, nontrivial: targets.len() >= 2 || two_candidates, need_tallies: vec!["conversions"], classes })
}

pub fn run(ctx: &Ctx) -> i32 {
    crate::props::behave::run(ctx, &behaviour())
}

pub fn behaviour() -> Behaviour {
    Behaviour {
        prop: "C10",
        rule: "structs and enums with 1..4 Into targets from {u8,u16,u32,u64,i64,String,&'static str,Wrap}, field markers with and without methods, sole-field \
               and unique-same-type selection, two same-typed candidates with one marked, targets that borrow for a lifetime of the type (`Into(&'a u16)`); for every target, variant and value x.into() is compared with the \
               model's designated field passed through its method, returned unchanged, or converted with From; Into<U> must not exist for the non-requested \
               U of the panel (trait-resolution probe); non-trivial = >=2 targets or >=2 candidate fields for one target",
        salt: 0xC10,
        cfg,
        adjust,
        render,
        quick: 7000,
        thorough: 20000,
        batch: 25,
        assumptions: &["m_into_* methods add a target-specific offset so that method identity is observable"],
        miri_units: 0,
        extra: None,
    }
}
