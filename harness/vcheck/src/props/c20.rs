//! C20 — union impls are byte-wise and only generated behind an explicit `unsafe`.
use serde_json::json;

use crate::check::{self, Ctx, Failure, RVerdict, Report};
use crate::dna::Dna;
use crate::engine::{self, Unit};
use crate::props::common::*;
use crate::spec::*;

struct UField {
    ty: &'static str,
    size: usize,
    align: usize,
    /// Default::default() exists
    default: bool,
    /// (expression, expected value) usable as a Default expression for this type
    expr: Option<(&'static str, &'static str)>,
}

const UFIELDS: [UField; 17] = [
    UField { ty: "u8", size: 1, align: 1, default: true, expr: Some(("7", "7u8")) },
    UField { ty: "[u8; 3]", size: 3, align: 1, default: true, expr: None },
    UField { ty: "u16", size: 2, align: 2, default: true, expr: Some(("b'x'", "120u16")) },
    UField { ty: "[u16; 3]", size: 6, align: 2, default: true, expr: None },
    UField { ty: "u32", size: 4, align: 4, default: true, expr: Some(("'M'", "77u32")) },
    UField { ty: "f32", size: 4, align: 4, default: true, expr: Some(("1.5", "1.5f32")) },
    UField { ty: "i64", size: 8, align: 8, default: true, expr: Some(("-5", "-5i64")) },
    UField { ty: "[u8; 16]", size: 16, align: 1, default: true, expr: None },
    UField { ty: "[u32; 3]", size: 12, align: 4, default: true, expr: None },
    UField { ty: "i8", size: 1, align: 1, default: true, expr: Some(("-1", "-1i8")) },
    UField { ty: "u64", size: 8, align: 8, default: true, expr: Some(("0 + 1", "1u64")) },
    UField { ty: "[u8; 5]", size: 5, align: 1, default: true, expr: None },
    // field types without a Default impl: designated for Default only together with an expression
    UField { ty: "[u8; 40]", size: 40, align: 1, default: false, expr: Some(("crate::prelude::ARR40", "[7u8; 40]")) },
    UField { ty: "*const u8", size: 8, align: 8, default: false, expr: Some(("::core::ptr::null()", "::core::ptr::null::<u8>()")) },
    // zero-sized fields: a union made only of these has no bytes at all
    UField { ty: "()", size: 0, align: 1, default: true, expr: None },
    UField { ty: "[u8; 0]", size: 0, align: 1, default: true, expr: None },
    UField { ty: "[u32; 0]", size: 0, align: 4, default: true, expr: None },
];
const FIRST_ZST: usize = 14;

pub struct UCase {
    pub def: String,
    pub body: String,
    pub without_unsafe: Vec<String>,
    pub nontrivial: bool,
    pub classes: Vec<String>,
}

pub fn build(dna: &[u16]) -> UCase {
    let mut d = Dna::new(dna);
    let generic = d.chance(20);
    let nf = 1 + d.weighted(&[20, 35, 30, 15]);
    let mut idx: Vec<usize> = Vec::new();
    for _ in 0..nf {
        idx.push(d.pick(UFIELDS.len()));
    }
    // zero-sized unions are a class of their own
    if d.chance(7) {
        for i in idx.iter_mut() {
            *i = FIRST_ZST + d.pick(UFIELDS.len() - FIRST_ZST);
        }
    }
    // half of the unions have no padding (the largest field covers every byte); the others may end in tail padding, from a
    // field that is more aligned than the largest one or from an alignment request on the union itself
    let padded = d.chance(50);
    while !padded {
        let max_size = idx.iter().map(|i| UFIELDS[*i].size).max().unwrap();
        let max_align = idx.iter().map(|i| UFIELDS[*i].align).max().unwrap();
        if max_size % max_align == 0 {
            break;
        }
        // append an all-bytes field that rounds the size up
        let want = (max_size + max_align - 1) / max_align * max_align;
        let pick = UFIELDS.iter().position(|f| f.size == want && f.align <= max_align);
        match pick {
            Some(p) => idx.push(p),
            None => {
                idx.retain(|i| UFIELDS[*i].align < max_align);
                if idx.is_empty() {
                    idx.push(0);
                }
            },
        }
    }
    let cover = idx.iter().map(|i| UFIELDS[*i].size).max().unwrap();
    let repr: Option<(&str, usize)> = if padded { [None, None, Some(("C", 1)), Some(("align(16)", 16)), Some(("C, align(8)", 8)), Some(("align(2)", 2))][d.pick(6)] } else { None };
    let align = idx.iter().map(|i| UFIELDS[*i].align).max().unwrap().max(repr.map(|r| r.1).unwrap_or(1));
    let size = (cover + align - 1) / align * align;
    let names = ["a", "b", "c", "d", "e", "f"];
    let tname = ["Un", "Bits", "Raw"][d.pick(3)];
    // traits
    let has_debug = d.chance(70);
    let has_peq = d.chance(60);
    let has_eq = has_peq && d.chance(40);
    let has_hash = d.chance(50);
    let has_clone = d.chance(50);
    let has_default = d.chance(50);
    let (has_debug, has_peq) = if !(has_debug || has_peq || has_hash || has_clone || has_default) { (true, true) } else { (has_debug, has_peq) };
    let name_mode = d.pick(3); // 0 default, 1 false, 2 custom
    let sp = d.byte();
    let name_param: Option<&str> = match name_mode {
        0 => None,
        1 => Some(["name = false", "name(false)", "rename = \"\""][sp as usize % 3]),
        _ => Some(["name = Shown", "name(Shown)", "rename = \"Shown\"", "name(\"Shown\")"][sp as usize % 4]),
    };
    let dbg_attr = match name_param {
        None => "Debug(unsafe)".to_string(),
        Some(p) => format!("Debug(unsafe, {p})"),
    };
    let shown_name: Option<&str> = match name_mode {
        0 => Some(tname),
        1 => None,
        _ => Some("Shown"),
    };
    let mut attrs: Vec<String> = Vec::new();
    let mut bad: Vec<String> = Vec::new();
    if has_debug {
        attrs.push(dbg_attr.clone());
        // the name-value short form has no room for `unsafe` at all
        bad.push(["Debug = Shown", "Debug = \"Shown\"", "Debug = false", "Debug()"][sp as usize % 4].to_string());
        match name_param {
            None => bad.push("Debug".to_string()),
            Some(p) => {
                bad.push(format!("Debug({p})"));
                bad.push(format!("Debug({p}, unsafe)"));
            },
        }
    }
    if has_peq {
        attrs.push("PartialEq(unsafe)".into());
        bad.push("PartialEq".into());
    }
    if has_eq {
        attrs.push("Eq".into());
    }
    if has_hash {
        attrs.push("Hash(unsafe)".into());
        bad.push("Hash".into());
    }
    // Clone alone: Copy is then written by hand; in a generic union the parameter sits inside ManuallyDrop<T> without a
    // declared bound, so that only the `FieldTy: Copy` predicates of the educed Clone make `*self` legal
    let clone_only = has_clone && d.chance(35);
    let md = clone_only && generic && !idx.iter().any(|i| UFIELDS[*i].ty == "[u32; 0]");
    if has_clone {
        attrs.push("Clone".into());
        if !clone_only {
            attrs.push("Copy".into());
        }
    }
    let default_pos = d.pick(idx.len());
    let has_default = has_default && !(md && UFIELDS[idx[default_pos]].ty == "u32");
    let needs_expr = !UFIELDS[idx[default_pos]].default;
    let default_expr = has_default && UFIELDS[idx[default_pos]].expr.is_some() && !(generic && UFIELDS[idx[default_pos]].ty == "u32") && (d.chance(50) || needs_expr);
    if has_default {
        attrs.push(if d.chance(30) { "Default(new)".into() } else { "Default".into() });
    }
    if d.chance(50) {
        attrs.rotate_left(1);
    }
    let gen_decl = if md { "<T>" } else if generic { "<T: Copy>" } else { "" };
    let gen_inst = if generic { "<u32>" } else { "" };
    let mut def = String::from("#[derive(Educe)]\n");
    let render_attrs = |list: &[String], split: bool| -> String {
        if split {
            list.iter().map(|a| format!("#[educe({a})]\n")).collect::<String>()
        } else {
            format!("#[educe({})]\n", list.join(", "))
        }
    };
    let split = d.chance(40);
    def.push_str(&render_attrs(&attrs, split));
    let mut fields_src = String::new();
    for (k, i) in idx.iter().enumerate() {
        let f = &UFIELDS[*i];
        if has_default && k == default_pos {
            if default_expr {
                let (e, _) = f.expr.unwrap();
                fields_src.push_str(&match d.pick(3) {
                    0 => format!("    #[educe(Default = {e})]\n"),
                    1 => format!("    #[educe(Default(expression = {e}))]\n"),
                    _ => format!("    #[educe(Default(expr({e})))]\n"),
                });
            } else if idx.len() > 1 || d.chance(30) {
                fields_src.push_str("    #[educe(Default)]\n");
            }
        }
        let ty = if md && f.ty == "u32" {
            "::core::mem::ManuallyDrop<T>"
        } else if generic && f.ty == "u32" {
            "T"
        } else if generic && f.ty == "[u32; 0]" {
            "[T; 0]"
        } else {
            f.ty
        };
        fields_src.push_str(&format!("    {}: {},\n", names[k], ty));
    }
    // a generic parameter must be used
    let uses_t = generic && idx.iter().any(|i| UFIELDS[*i].ty == "u32" || UFIELDS[*i].ty == "[u32; 0]");
    let (gen_decl, gen_inst) = if generic && !uses_t { ("", "") } else { (gen_decl, gen_inst) };
    let repr_src = repr.map(|r| format!("#[repr({})]\n", r.0)).unwrap_or_default();
    let body_def = format!("{repr_src}pub union {tname}{gen_decl} {{\n{fields_src}}}\n");
    let mut user_impls = String::new();
    if clone_only {
        // the user's own Copy impl
        user_impls.push_str(&if generic && uses_t {
            if md && idx.iter().any(|i| UFIELDS[*i].ty == "u32") {
                format!("impl<T> ::core::marker::Copy for {tname}<T> where ::core::mem::ManuallyDrop<T>: ::core::marker::Copy {{}}\n")
            } else if md {
                format!("impl<T> ::core::marker::Copy for {tname}<T> where [T; 0]: ::core::marker::Copy {{}}\n")
            } else {
                format!("impl<T: ::core::marker::Copy> ::core::marker::Copy for {tname}<T> {{}}\n")
            }
        } else {
            format!("impl ::core::marker::Copy for {tname} {{}}\n")
        });
    }
    def.push_str(&body_def);
    def.push_str(&user_impls);
    let ty = format!("{tname}{gen_inst}");

    // ---- observer
    let mut o = String::new();
    o.push_str(&format!("pub const SIZE: usize = {size};\n"));
    o.push_str(&format!("pub const COVER: usize = {cover};\n"));
    // values live in place inside byte storage and are only ever looked at through references: a typed move of a union need
    // not preserve bytes that no field covers
    o.push_str("#[repr(C, align(32))]\npub struct Store(pub [u8; 64]);\n");
    o.push_str("pub fn put(bytes: &[u8]) -> Store {\n    let mut s = Store([0u8; 64]);\n    s.0[..bytes.len()].copy_from_slice(bytes);\n    s\n}\n");
    o.push_str(&format!("pub fn view(s: &Store) -> &{ty} {{\n    assert!(::core::mem::size_of::<{ty}>() <= 64 && ::core::mem::align_of::<{ty}>() <= 32);\n    unsafe {{ &*(s.0.as_ptr() as *const {ty}) }}\n}}\n"));
    o.push_str("pub fn patterns() -> ::std::vec::Vec<::std::vec::Vec<u8>> {\n    let mut v = vec![vec![0u8; SIZE], vec![0xFFu8; SIZE]];\n");
    o.push_str("    for k in 0..SIZE { let mut p = vec![0u8; SIZE]; p[k] = 1; v.push(p); let mut q = vec![0xFFu8; SIZE]; q[k] = 0x7F; v.push(q); }\n");
    o.push_str("    v.push((0..SIZE).map(|k| (k as u8).wrapping_mul(37).wrapping_add(11)).collect());\n    v.push((0..SIZE).map(|k| (k as u8).wrapping_mul(101).wrapping_add(200)).collect());\n    v\n}\n");
    if has_debug {
        o.push_str("pub struct DbgOracle<'x>(pub &'x [u8]);\nimpl<'x> ::core::fmt::Debug for DbgOracle<'x> {\n    fn fmt(&self, f: &mut ::core::fmt::Formatter<'_>) -> ::core::fmt::Result {\n");
        match shown_name {
            Some(n) => o.push_str(&format!("        f.debug_tuple({:?}).field(&self.0).finish()\n", n)),
            None => o.push_str("        ::core::fmt::Debug::fmt(self.0, f)\n"),
        }
        o.push_str("    }\n}\n");
    }
    o.push_str("pub fn run(o: &mut Out) {\n");
    o.push_str(&format!("    o.check(::core::mem::size_of::<{ty}>() == SIZE, || format!(\"HARNESS: size {{}} != {{}}\", ::core::mem::size_of::<{ty}>(), SIZE));\n"));
    o.push_str("    let pats = patterns();\n");
    o.push_str("    let store: ::std::vec::Vec<Store> = pats.iter().map(|p| put(p)).collect();\n");
    o.push_str(&format!("    for i in 0..store.len() {{\n        let x: &{ty} = view(&store[i]);\n        let bytes = &pats[i];\n"));
    o.push_str("        o.check(&bytes_of(x) == bytes, || \"HARNESS: value does not hold its pattern\".to_string());\n");
    if has_debug {
        o.push_str("        for (k, (got, exp)) in [(format!(\"{:?}\", x), format!(\"{:?}\", DbgOracle(bytes))), (format!(\"{:#?}\", x), format!(\"{:#?}\", DbgOracle(bytes)))].into_iter().enumerate() {\n");
        o.push_str("            o.check(got == exp, || format!(\"pattern {i} format {k}: educe prints `{got}`, expected `{exp}`\"));\n        }\n        o.tally(\"debug\", 2);\n");
    }
    if has_hash {
        o.push_str("        let got = rec(x);\n        let exp = rec(&bytes[..]);\n");
        o.push_str("        o.check(got == exp, || format!(\"pattern {i}: hasher received {:?}, one byte slice of the value would give {:?}\", got, exp));\n        o.tally(\"hash\", 1);\n");
    }
    if has_clone {
        // (the clone is a moved value: only the bytes covered by a field are compared)
        o.push_str(&format!("        let c: {ty} = ::core::clone::Clone::clone(x);\n        let cb = unsafe {{ ::core::slice::from_raw_parts(&c as *const {ty} as *const u8, COVER) }};\n        o.check(cb == &bytes[..COVER], || format!(\"pattern {{i}}: clone is not a bitwise copy\"));\n        o.tally(\"clone\", 1);\n"));
    }
    if has_peq {
        o.push_str("        for j in 0..store.len() {\n            let y = view(&store[j]);\n            let exp = pats[i] == pats[j];\n            let got = x == y;\n");
        o.push_str("            o.check(got == exp && (x != y) == !exp, || format!(\"patterns {i},{j}: == says {got}, byte comparison says {exp}\"));\n");
        o.push_str("            if !exp { o.tally(\"eq_false\", 1); } else { o.tally(\"eq_true\", 1); }\n        }\n");
    }
    o.push_str("    }\n");
    if has_hash && has_clone && size == cover && size > 0 {
        // a slice of unions (an array, a Vec) is hashed through Hash::hash_slice: the length, then every element as above
        o.push_str("    {\n        let last = store.len() - 1;\n        let arr = [*view(&store[0]), *view(&store[last]), *view(&store[1])];\n        let got = rec(&arr[..]);\n");
        o.push_str("        let mut h = RecHasher::new();\n        ::core::hash::Hasher::write_usize(&mut h, 3);\n");
        o.push_str("        ::core::hash::Hash::hash(&pats[0][..], &mut h); ::core::hash::Hash::hash(&pats[last][..], &mut h); ::core::hash::Hash::hash(&pats[1][..], &mut h);\n");
        o.push_str("        o.check(got == h.calls, || format!(\"a slice of three values: hasher received {:?}, the length and the three byte slices would give {:?}\", got, h.calls));\n        o.tally(\"hash_slice\", 1);\n    }\n");
    }
    if has_clone {
        o.push_str(&format!("    o.check(impls!({ty}: Copy) && impls!({ty}: Clone), || \"Clone/Copy not implemented\".to_string());\n"));
    }
    if has_eq {
        o.push_str(&format!("    o.check(impls!({ty}: Eq), || \"Eq not implemented\".to_string());\n"));
    }
    if has_default {
        let f = &UFIELDS[idx[default_pos]];
        let fty = if generic && uses_t && f.ty == "u32" { "u32" } else { f.ty };
        let exp = if default_expr { f.expr.unwrap().1.to_string() } else { format!("<{fty} as ::core::default::Default>::default()") };
        o.push_str(&format!("    let d: {ty} = <{ty} as ::core::default::Default>::default();\n    let got: {fty} = unsafe {{ d.{} }};\n    let exp: {fty} = {exp};\n", names[default_pos]));
        o.push_str("    o.check(format!(\"{:?}\", got) == format!(\"{:?}\", exp), || format!(\"default(): designated field holds {:?}, expected {:?}\", got, exp));\n    o.tally(\"default\", 1);\n");
    }
    o.push_str("    o.tally(\"patterns\", pats.len() as u64);\n}\n");
    let body = format!("{}{}\npub mod obs {{\n#![allow(warnings)]\nuse super::*;\n{}}}\npub fn run(o: &mut Out) {{ obs::run(o) }}\n", std_header(), def, o);
    // the same definitions with `unsafe` missing / misplaced (must be refused)
    let mut without_unsafe = Vec::new();
    for b in &bad {
        let list: Vec<String> = attrs
            .iter()
            .map(|a| {
                let key = b.split('(').next().unwrap().split(' ').next().unwrap();
                if a.starts_with(key) && (a.starts_with(&format!("{key}(")) || a == key) && a.contains("unsafe") {
                    b.clone()
                } else {
                    a.clone()
                }
            })
            .collect();
        without_unsafe.push(format!("{}{}", render_attrs(&list, split), body_def));
    }
    let first_size = UFIELDS[idx[0]].size;
    let sizes_differ = idx.iter().map(|i| UFIELDS[*i].size).collect::<std::collections::BTreeSet<_>>().len() >= 2;
    let mut classes = vec![format!("fields_{}", idx.len()), format!("size_{size}")];
    if generic && uses_t {
        classes.push("generic".into());
    }
    if name_mode == 1 {
        classes.push("name_disabled".into());
    }
    if name_mode == 2 {
        classes.push("name_custom".into());
    }
    if size == 0 {
        classes.push("zero_sized".into());
    }
    if clone_only {
        classes.push("clone_without_educed_copy".into());
    }
    if md {
        classes.push("manually_drop_parameter".into());
    }
    if size > cover {
        classes.push("tail_padding".into());
    }
    if let Some(r) = repr {
        classes.push(format!("repr_{}", r.0.replace(", ", "_").replace('(', "").replace(')', "")));
    }
    UCase { def, body, without_unsafe, nontrivial: (sizes_differ && first_size < size) || size == 0 || size > cover, classes }
}

pub fn run(ctx: &Ctx) -> i32 {
    if ctx.replay.is_some() {
        return check::replay_unit(ctx);
    }
    let mut rep = Report::new(
        ctx,
        "unions with 1..5 fields over sizes 0..16 (zero-sized unions included) and alignments 1..8 (arrays, integers, floats, a generic T: Copy); in half of them the largest field covers every byte, the others may end in tail padding \
         (a smaller but more aligned field, repr(C), repr(align(2|8|16))); name default/false/custom, trait sets within {Debug, PartialEq, Eq, Hash, Clone, Copy, Default}; \
         values are byte patterns (all-zero, all-FF, a single differing byte at every offset - padding included -, two mixed patterns) held in place in aligned byte storage \
         and only looked at through references (a typed move need not preserve bytes no field covers; the moved result of clone() is compared on the covered bytes); oracle: Debug equals debug_tuple(name).field(&bytes) \
         or Debug for [u8] in both formats, == iff the size_of::<Self>() bytes are equal, the recording hasher sees exactly Hash::hash(&bytes[..]), clone is \
         byte-identical and the type is Copy, default() holds the designated field's expression or default; every definition with `unsafe` removed or not \
         first must be refused in-process; non-trivial = fields of different sizes with the first field smaller than the union, a zero-sized union, or tail padding; distinct by definition hash",
    );
    rep.assumptions.push("all size_of::<Self>() bytes are initialised, which is the documented contract of these impls".into());
    let so = match engine::build_proc_macro() {
        Ok(s) => s,
        Err(e) => {
            rep.inconclusive.push(e.0);
            return rep.finish();
        },
    };
    let n = ctx.scale(4000, 8000);
    let trees = check::draw(ctx.seed, 0xC20, n, 120);
    let cases: Vec<UCase> = trees.iter().map(|t| build(&t.current())).collect();
    // rejection half, in-process
    for (i, c) in cases.iter().enumerate() {
        for src in &c.without_unsafe {
            rep.count("without_unsafe_requests", 1);
            match engine::expand_src(src) {
                engine::Expansion::Err(_) => rep.count("without_unsafe_refused", 1),
                engine::Expansion::Panic(_) => rep.count("without_unsafe_panic_in_process(see C17)", 1),
                engine::Expansion::Ok(_) => rep.violations.push(Failure {
                    msg: "a byte-wise union impl was generated without a leading `unsafe`".into(),
                    dna: trees[i].current(),
                    variant: "no-unsafe".into(),
                    source: src.clone(),
                    unit_body: None,
                }),
                engine::Expansion::Unparsable(m) => rep.inconclusive.push(format!("unparsable union request: {m}\n{src}")),
            }
        }
    }
    let units: Vec<Unit> = cases.iter().map(|c| Unit { body: c.body.clone(), has_run: true }).collect();
    let (outs, stray) = check::eval_units("C20", &units, &so, 25, true);
    for s in stray.iter().take(3) {
        rep.inconclusive.push(format!("diagnostic outside any generated type: {s}"));
    }
    for (k, o) in outs.iter().enumerate() {
        rep.evaluations += 1;
        for c in &cases[k].classes {
            rep.class(c);
        }
        rep.count("runtime_checks", o.checks);
        for (k2, v) in &o.tallies {
            rep.count(&format!("tally_{k2}"), *v);
        }
        if cases[k].nontrivial {
            rep.nontrivial.insert(fnv64(&cases[k].def));
        }
        if k < 3 {
            rep.sample(json!(cases[k].def));
        }
        if let RVerdict::Fail(m) = check::judge_default(o, true) {
            rep.violations.push(Failure { msg: m, dna: trees[k].current(), variant: "behaviour".into(), source: cases[k].def.clone(), unit_body: Some(cases[k].body.clone()) });
        }
    }
    check::clean_work("C20");
    // ---- Miri lane (thorough tier): the impls read size_of::<Self>() raw bytes; with fully initialised values that must be UB-free
    if ctx.thorough() || std::env::var("VERIF_MIRI").is_ok() {
        let sel: Vec<usize> = (0..cases.len()).filter(|k| cases[*k].body.len() < 9000).take(20).collect();
        let munits: Vec<Unit> = sel.iter().map(|k| units[*k].clone()).collect();
        match engine::miri_run("C20-miri", &munits) {
            Ok((stdout, stderr, ok)) => {
                let ran = stdout.lines().filter(|l| l.starts_with("T ")).count();
                rep.count("miri_units_run", ran as u64);
                let fails: Vec<&str> = stdout.lines().filter(|l| l.starts_with("F ")).collect();
                if stderr.contains("Undefined Behavior") || !fails.is_empty() {
                    let idx = sel[ran.min(sel.len() - 1)];
                    rep.violations.push(Failure {
                        msg: format!("under Miri: {} {}", stderr.lines().filter(|l| l.contains("Undefined Behavior") || l.contains("error:")).take(3).collect::<Vec<_>>().join(" | "), fails.iter().take(3).cloned().collect::<Vec<_>>().join(" ; ")),
                        dna: trees[idx].current(),
                        variant: "miri".into(),
                        source: cases[idx].def.clone(),
                        unit_body: Some(cases[idx].body.clone()),
                    });
                } else if !ok {
                    rep.inconclusive.push(format!("the Miri lane did not complete: {}", stderr.lines().filter(|l| !l.trim().is_empty()).take(12).collect::<Vec<_>>().join(" / ")));
                }
            },
            Err(e) => rep.inconclusive.push(e.0),
        }
        check::clean_work("C20-miri");
    }
    rep.finish()
}
