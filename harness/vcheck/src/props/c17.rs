//! C17 — the macro is total: it never panics, aborts or hangs.
use rayon::prelude::*;
use serde_json::json;

use crate::check::{self, Ctx, Failure, Report};
use crate::dna::Dna;
use crate::engine::{self, Expansion, Unit};
use crate::gen::{self, GenCfg};
use crate::mutate;
use crate::spec::*;

pub struct Res {
    pub src: String,
    pub what: Vec<String>,
    pub result: Expansion,
}

/// the mutated request for a choice stream (no expansion happens here)
pub fn mutant(dna: &[u16]) -> Result<(String, Vec<String>), String> {
    let mut d = Dna::new(dna);
    let mut cfg = GenCfg::full();
    cfg.trait_pct = 40;
    let b = gen::build(&mut d, &cfg);
    let base = b.spec.render_def_with("", true);
    let ts: proc_macro2::TokenStream = match base.parse() {
        Ok(t) => t,
        Err(e) => return Err(format!("{e}: {base}")),
    };
    let (m, what) = mutate::mutate(ts, &mut d);
    Ok((m.to_string(), what))
}

/// a generated request with macro fragments marked `__ng(..)`; half of them token-mutated like `mutant`
pub fn grouped_request(dna: &[u16]) -> String {
    let mut d = Dna::new(dna);
    let mut cfg = GenCfg::full();
    cfg.trait_pct = 40;
    cfg.attr_pct = 55;
    let b = gen::build(&mut d, &cfg);
    let mut spec = b.spec;
    let bits = 1 + d.pick(15) as u8;
    // a fragment need not be a whole field type or target, and it may hold any type syntax (also what could not stand
    // there without the invisible group, like `&'static $t` with `$t = dyn A + Sync`)
    const EXOTIC: [&str; 12] = [
        "dyn A + Sync", "dyn for<'x> Fn(&'x u8) -> u8 + Send", "impl Fn() -> u8", "[u8]", "fn(u8) -> u8", "(u8, i8)", "!", "<u8 as Tr>::Out", "*const u8", "_",
        "Self", "&'static mut dyn A",
    ];
    let mut exotic: Option<&str> = None;
    let nf: usize = spec.variants.iter().map(|v| v.fields.len()).sum();
    if nf > 0 && d.chance(25) {
        let x = EXOTIC[d.pick(EXOTIC.len())];
        let src = if d.chance(60) { "&'static ExoticFragment".to_string() } else { "ExoticFragment".to_string() };
        let k = d.pick(nf);
        let with_into = d.chance(60) && spec.kind != Kind::Union;
        let mut i = 0;
        for v in spec.variants.iter_mut() {
            for f in v.fields.iter_mut() {
                if i == k {
                    f.ty.src = src.clone();
                    if with_into {
                        f.attrs.push(FAttr { tr: Tr::Into, into_ty: Some(src.clone()), params: vec![], sp: 0 });
                    }
                }
                i += 1;
            }
        }
        if with_into {
            spec.traits.push(TAttr { tr: Tr::Into, into_ty: Some(src.clone()), params: vec![], sp: 0 });
        }
        exotic = Some(x);
    }
    let mut base = spec.render_def_grouped(bits);
    if let Some(x) = exotic {
        base = base.replace("__ng(&'static ExoticFragment)", &format!("&'static __ng({x})")).replace("__ng(ExoticFragment)", &format!("__ng({x})")).replace("ExoticFragment", &format!("__ng({x})"));
    }
    if d.chance(50) {
        if let Ok(ts) = base.parse::<proc_macro2::TokenStream>() {
            return mutate::mutate(ts, &mut d).0.to_string();
        }
    }
    base
}

/// the same tokens produced by a `macro_rules!` definition, for the real compiler: every `__ng(X)` becomes a fragment
/// (`ty` if X parses as a type, `expr` otherwise) that the single invocation supplies
pub fn macro_form(src: &str) -> String {
    fn walk(ts: proc_macro2::TokenStream, params: &mut Vec<String>, args: &mut Vec<String>) -> String {
        use proc_macro2::{Delimiter, TokenTree};
        let mut out = String::new();
        let mut it = ts.into_iter().peekable();
        while let Some(tt) = it.next() {
            match tt {
                TokenTree::Ident(ref i) if i == "__ng" => {
                    if let Some(TokenTree::Group(g)) = it.peek() {
                        if g.delimiter() == Delimiter::Parenthesis {
                            let inner = g.stream();
                            let kind = if syn::parse2::<syn::Type>(inner.clone()).is_ok() { "ty" } else { "expr" };
                            let k = params.len();
                            params.push(format!("$p{k}:{kind}"));
                            args.push(inner.to_string());
                            out.push_str(&format!(" $p{k} "));
                            it.next();
                            continue;
                        }
                    }
                    out.push_str("__ng ");
                },
                TokenTree::Group(g) => {
                    let (o, c) = match g.delimiter() {
                        Delimiter::Parenthesis => ("(", ")"),
                        Delimiter::Brace => ("{", "}"),
                        Delimiter::Bracket => ("[", "]"),
                        Delimiter::None => ("", ""),
                    };
                    out.push_str(o);
                    out.push_str(&walk(g.stream(), params, args));
                    out.push_str(c);
                    out.push(' ');
                },
                other => {
                    out.push_str(&other.to_string());
                    // keep multi-character punctuation together
                    if let TokenTree::Punct(p) = &other {
                        if p.spacing() == proc_macro2::Spacing::Joint {
                            continue;
                        }
                    }
                    out.push(' ');
                },
            }
        }
        out
    }
    let Ok(ts) = src.parse::<proc_macro2::TokenStream>() else { return format!("use educe::Educe;\n#[derive(Educe)]\n{src}\n") };
    let mut params = Vec::new();
    let mut args = Vec::new();
    let body = walk(ts, &mut params, &mut args);
    format!("use educe::Educe;\nmacro_rules! mk_it {{\n    ({}) => {{\n#[derive(Educe)]\n{body}\n    }};\n}}\nmk_it!({});\n", params.join(", "), args.join(", "))
}

pub fn eval(dna: &[u16]) -> Res {
    match mutant(dna) {
        Ok((src, what)) => {
            let result = engine::expand_src(&src);
            Res { src, what, result }
        },
        Err(e) => Res { src: String::new(), what: vec![], result: Expansion::Unparsable(e) },
    }
}

fn panic_site(m: &str) -> String {
    m.rsplit(" @ ").next().unwrap_or("").to_string()
}

/// a source file that nests `depth` groups inside an educe argument
fn ladder_source(kind: usize, depth: usize) -> String {
    let open = "(".repeat(depth);
    let close = ")".repeat(depth);
    match kind {
        0 => format!("use educe::Educe;\n#[derive(Educe)]\n#[educe(Default(expression = {open}1{close}))]\npub struct S(u8);\nfn main() {{}}\n"),
        1 => format!("use educe::Educe;\n#[derive(Educe)]\n#[educe(Into({open}u8{close}))]\npub struct S(u8);\nfn main() {{}}\n"),
        2 => format!("use educe::Educe;\n#[derive(Educe)]\n#[educe(Debug(bound({open}u8{close}: Copy)))]\npub struct S(u8);\nfn main() {{}}\n"),
        _ => format!("use educe::Educe;\n#[derive(Educe)]\n#[educe(Debug(name{open}{close}))]\npub struct S(u8);\nfn main() {{}}\n"),
    }
}


const GRID_TRAITS: &[&str] = &["Debug", "Clone", "Copy", "PartialEq", "Eq", "PartialOrd", "Ord", "Hash", "Default", "Deref", "DerefMut", "Into"];

/// argument forms for one trait item `T…`; `{T}` is replaced by the trait name
const GRID_SHAPES: &[&str] = &[
    "{T}", "{T}()", "{T}[]", "{T}{}", "{T} = x", "{T} = \"x\"", "{T} = 1", "{T} = false", "{T}(unsafe)", "{T}(unsafe,)", "{T}[unsafe]", "{T}{unsafe}",
    "{T}(unsafe, unsafe)", "{T}(unsafe = true)", "{T}(unsafe())", "{T}(ignore)", "{T}(ignore = true)", "{T}(ignore, ignore)", "{T}(method = m)",
    "{T}(method(m))", "{T}(method = \"m\")", "{T}(method)", "{T}(name = false)", "{T}(name(X))", "{T}(name = \"\")", "{T}(named_field = false)",
    "{T}(rank = 1)", "{T}(rank = -1)", "{T}(rank(1))", "{T}(bound(*))", "{T}(bound())", "{T}(bound = \"\")", "{T}(bound(T: Copy))", "{T}(bound)",
    "{T}(new)", "{T}(new, new)", "{T}(u8)", "{T}(u8, method = m)", "{T}(expression = 1)", "{T}(expression(1))", "{T} = 1 + 1", "{T}(x)", "{T}({T})",
    "{T}::x", "::{T}", "{T}<u8>", "{T}(,)", "{T}(=)", "{T}(\"s\")", "{T}(1)", "{T}(unsafe, ignore)", "{T}(unsafe, method = m)", "{T}(unsafe, bound(*))",
    "{T}(unsafe, name = false)", "{T}(unsafe, new)", "{T}(unsafe, u8)", "{T}(unsafe, expression = 1)", "{T}(unsafe, rank = 1)", "unsafe", "{T}(unsafe(unsafe))",
    "{T} {T}", "{T},,", "{T}(()", "r#{T}", "{T}(r#unsafe)", "{T}!", "{T}(unsafe)()", "#{T}", "{T}(unsafe) = 1",
];

/// item skeletons: `@T` = type-level attribute position, `@V` = variant-level, `@F` = field-level
const GRID_ITEMS: &[&str] = &[
    "@T struct S;",
    "@T struct S(@F u8);",
    "@T struct S(@F u8, u16);",
    "@T struct S { @F a: u8 }",
    "@T struct S<T> { @F a: T, b: u8 }",
    "@T enum E {}",
    "@T enum E { @V A }",
    "@T enum E { @V A, B(@F u8) }",
    "@T enum E<T> { @V A { @F a: T }, B }",
    "@T union U { @F a: u8 }",
    "@T union U { @F a: u8, b: u16 }",
    "@T union U<T: Copy> { @F a: T }",
];

/// Bounded-exhaustive lane: every trait x every argument form x every attribute position x every item skeleton,
/// alone and next to a second (plain) trait item. In-process; panics are confirmed through rustc by the caller.
fn grid_sources(thorough: bool) -> Vec<String> {
    let mut v = Vec::new();
    for item in GRID_ITEMS {
        for pos in ["@T", "@V", "@F"] {
            if !item.contains(pos) {
                continue;
            }
            for t in GRID_TRAITS {
                for shape in GRID_SHAPES {
                    let arg = shape.replace("{T}", t);
                    let mut companions: Vec<Option<&str>> = vec![None];
                    if thorough {
                        companions.extend(GRID_TRAITS.iter().filter(|u| *u != t).map(|u| Some(*u)));
                    } else {
                        // the companions that change which handler owns the request
                        companions.extend(["Clone", "Copy", "PartialOrd", "Ord", "Deref", "Eq"].iter().filter(|u| *u != t).map(|u| Some(*u)));
                    }
                    for c in companions {
                        for order in 0..2 {
                            let list = match (c, order) {
                                (None, 0) => arg.clone(),
                                (None, _) => continue,
                                (Some(c), 0) => format!("{arg}, {c}"),
                                (Some(c), _) => format!("{c}, {arg}"),
                            };
                            let attr = format!("#[educe({list})]");
                            // the other positions stay empty; a type-level companion keeps field-level items meaningful
                            let mut src = item.replace(pos, &attr);
                            let type_level = if pos == "@T" { String::new() } else { format!("#[educe({t})]") };
                            src = src.replace("@T", &type_level).replace("@V", "").replace("@F", "");
                            v.push(src);
                        }
                    }
                }
            }
        }
    }
    // attributes that name no trait at all, at every position, alone and next to a real request
    for item in GRID_ITEMS {
        for pos in ["@T", "@V", "@F"] {
            if !item.contains(pos) {
                continue;
            }
            for form in ["#[educe()]", "#[educe{}]", "#[educe[]]", "#[educe(,)]", "#[educe]", "#[educe = \"x\"]", "#[educe()] #[educe()]", "#[educe(())]", "#[educe(unsafe)]", "#[educe(\"Debug\")]", "#[educe(1)]"] {
                for with_real in [false, true] {
                    let type_level = match (pos, with_real) {
                        ("@T", false) => form.to_string(),
                        ("@T", true) => format!("#[educe(Debug)] {form}"),
                        (_, false) => String::new(),
                        (_, true) => "#[educe(Debug)]".to_string(),
                    };
                    let mut src = if pos == "@T" { item.to_string() } else { item.replace(pos, form) };
                    src = src.replace("@T", &type_level).replace("@V", "").replace("@F", "");
                    v.push(src);
                }
            }
        }
    }
    v
}

pub fn run(ctx: &Ctx) -> i32 {
    let mut rep = Report::new(
        ctx,
        "valid generated requests with 1..4 token-level mutations inside #[educe(..)] (delete/duplicate/swap/replace/insert tokens, \
         literal kinds, empty lists, extra group nesting up to 64, = vs () confusion, multi-segment paths, non-ASCII, huge integers, \
         misplaced unsafe, delimiter changes) or at item level (discriminant expressions, repr forms, malformed educe attributes); \
         oracle: the in-process expansion returns Ok or an Err whose message and compile_error tokens can be rendered; every \
         in-process panic and every input that kills its expanding child process (stack overflow, abort) is re-run through rustc with the shipping macro and is a violation only if rustc reports a proc-macro panic, \
         an ICE or dies by signal; plus a bounded-exhaustive grid (12 traits x 69 argument forms x type/variant/field position x 12 item skeletons incl. unions and empty enums, alone and beside a second trait item in both orders); plus a nesting ladder (16..4096) compiled in child processes; non-trivial = the mutant reaches a \
         diagnostic path (is refused); distinct by mutant hash",
    );
    rep.assumptions.push("non-termination is decided by CPU time, not wall-clock time: a request whose expansion uses up 120 CPU seconds in the child process and 60 CPU seconds inside rustc (neighbouring requests need microseconds) is reported as a violation; a child that is merely slow on the wall clock is inconclusive (exit 2)".into());
    rep.assumptions.push("panics that only occur under proc_macro2's fallback token printer are counted but not reported".into());
    let known = check::load_known();
    if let Some(p) = &ctx.replay {
        return check::replay_unit_panic(ctx, p);
    }
    // every compilation of this check is one tiny unit: 60 CPU seconds are several hundred times what it needs
    std::env::set_var("VERIF_RUSTC_CPU", "60");
    let n = ctx.scale(60000, 1000000);
    let dnas: Vec<Vec<u16>> = check::draw_values(ctx.seed, 0xC17, n, 520);
    // the expansions run in child processes: a stack overflow or abort in the subject kills a child, not this check,
    // and names the input that was being expanded; a child without progress for 240 s is killed (hang candidate)
    let muts: Vec<Result<(String, Vec<String>), String>> = dnas.par_iter().map(|d| mutant(d)).collect();
    let srcs: Vec<String> = muts.iter().map(|m| m.as_ref().map(|x| x.0.clone()).unwrap_or_default()).collect();
    let isos = engine::expand_isolated("C17-iso", &srcs, false);
    let mut crash_candidates: Vec<(String, String, Vec<u16>)> = Vec::new();
    let mut hung = 0u64;
    let results: Vec<Res> = muts
        .into_iter()
        .zip(isos.into_iter())
        .enumerate()
        .map(|(i, (m, iso))| {
            let (src, what) = m.unwrap_or_default();
            let result = match iso {
                engine::Iso::Done(r) => r,
                engine::Iso::Crashed(how) => {
                    if crash_candidates.len() < 12 {
                        crash_candidates.push((src.clone(), format!("the expanding process died: {how}"), dnas[i].clone()));
                    }
                    Expansion::Panic(format!("process died: {how} @ <crash>"))
                },
                engine::Iso::Hung(true) => {
                    if crash_candidates.len() < 12 {
                        crash_candidates.push((src.clone(), format!("does not terminate: the expanding process used up {} s of CPU time on this request (its neighbours expand in microseconds)", engine::CHILD_CPU_LIMIT), dnas[i].clone()));
                    }
                    Expansion::Panic("does not terminate @ <loop>".into())
                },
                engine::Iso::Hung(false) => {
                    hung += 1;
                    Expansion::Unparsable("no answer".into())
                },
            };
            Res { src, what, result }
        })
        .collect();
    rep.count("expansions_that_killed_their_process", crash_candidates.len() as u64);
    let mut candidates: Vec<(usize, String)> = Vec::new();
    let mut empty_ok: Vec<(String, Vec<u16>)> = Vec::new();
    let mut per_site: std::collections::BTreeMap<String, usize> = Default::default();
    for (i, r) in results.iter().enumerate() {
        rep.evaluations += 1;
        rep.class(r.result.tag());
        match &r.result {
            Expansion::Err(_) => {
                rep.nontrivial.insert(fnv64(&r.src));
                if rep.samples.len() < 4 && i % 5 == 0 {
                    rep.sample(json!({"mutations": r.what, "mutant": r.src, "outcome": format!("{:?}", r.result).chars().take(200).collect::<String>()}));
                }
            },
            Expansion::Panic(m) => {
                let site = panic_site(m);
                let c = per_site.entry(site.clone()).or_insert(0);
                *c += 1;
                if *c <= 6 {
                    candidates.push((i, m.clone()));
                }
            },
            Expansion::Ok(t) if t == "<empty>" => empty_ok.push((r.src.clone(), dnas[i].clone())),
            _ => {},
        }
    }
    // bounded-exhaustive grid
    let grid = grid_sources(ctx.thorough());
    let grid_res: Vec<Expansion> = engine::expand_isolated("C17-iso-grid", &grid, false)
        .into_iter()
        .enumerate()
        .map(|(i, iso)| match iso {
            engine::Iso::Done(r) => r,
            engine::Iso::Crashed(how) => {
                if crash_candidates.len() < 24 {
                    crash_candidates.push((grid[i].clone(), format!("the expanding process died: {how}"), Vec::new()));
                }
                Expansion::Unparsable("process died".into())
            },
            engine::Iso::Hung(true) => {
                if crash_candidates.len() < 24 {
                    crash_candidates.push((grid[i].clone(), format!("does not terminate: the expanding process used up {} s of CPU time on this request", engine::CHILD_CPU_LIMIT), Vec::new()));
                }
                Expansion::Unparsable("does not terminate".into())
            },
            engine::Iso::Hung(false) => {
                hung += 1;
                Expansion::Unparsable("no answer".into())
            },
        })
        .collect();
    if hung > 0 {
        rep.inconclusive.push(format!("{hung} expansions gave no answer within the wall-clock watchdog (possible hang, not confirmed by CPU time)"));
    }
    let mut grid_candidates: Vec<(usize, String)> = Vec::new();
    for (i, r) in grid_res.iter().enumerate() {
        rep.evaluations += 1;
        rep.count("grid_cases", 1);
        match r {
            Expansion::Err(_) => {
                rep.count("grid_refused", 1);
                rep.nontrivial.insert(fnv64(&grid[i]));
            },
            Expansion::Ok(t) => {
                rep.count("grid_accepted", 1);
                if t == "<empty>" {
                    empty_ok.push((grid[i].clone(), Vec::new()));
                }
            },
            Expansion::Unparsable(_) => rep.count("grid_not_a_derive_input", 1),
            Expansion::Panic(m) => {
                let site = format!("grid:{}", panic_site(m));
                let c = per_site.entry(site).or_insert(0);
                *c += 1;
                if *c <= 6 {
                    grid_candidates.push((i, m.clone()));
                }
            },
        }
    }
    rep.extra.insert("in_process_panic_sites".into(), json!(per_site));
    // "either produces items or reports a diagnostic": an accepted request with an empty expansion is neither
    rep.count("accepted_with_empty_expansion", empty_ok.len() as u64);
    for (src, dna) in empty_ok.iter().take(8) {
        rep.violations.push(Failure {
            msg: "the macro accepts the request and generates nothing: neither items nor a diagnostic".into(),
            dna: dna.clone(),
            variant: "empty-ok".into(),
            source: src.clone(),
            unit_body: Some(format!("use educe::Educe;\n#[derive(Educe)]\n{src}\n")),
        });
    }
    // confirm candidates through the shipping macro
    let so = match engine::build_proc_macro() {
        Ok(s) => s,
        Err(e) => {
            rep.inconclusive.push(e.0);
            return rep.finish();
        },
    };
    let mut all: Vec<(String, String, Vec<u16>)> = candidates.iter().map(|(i, m)| (results[*i].src.clone(), m.clone(), dnas[*i].clone())).collect();
    all.extend(grid_candidates.iter().map(|(i, m)| (grid[*i].clone(), m.clone(), Vec::new())));
    all.extend(crash_candidates.iter().cloned());
    if !all.is_empty() {
        let units: Vec<Unit> = all.iter().map(|(src, _, _)| Unit { body: format!("use educe::Educe;\n#[derive(Educe)]\n{src}\n"), has_run: false }).collect();
        let (outs, _) = check::eval_units("C17", &units, &so, 1, false);
        for (k, o) in outs.iter().enumerate() {
            let (src, m, dna) = &all[k];
            rep.count("panic_candidates_confirmed_through_rustc", 1);
            if o.proc_macro_panic || o.died.is_some() {
                let site = panic_site(m);
                if let Some(kf) = known.iter().find(|kf| kf.property == "C17" && kf.status == "open" && kf.signature == "panic_in_hash_union_hint" && site.contains("hash/panic.rs")) {
                    rep.known(&kf.id, &kf.what);
                    continue;
                }
                rep.violations.push(Failure {
                    msg: format!("the shipping macro does not end with items or a diagnostic (in-process: {m}); rustc: {:?} {:?}", o.compile_errors.iter().take(2).collect::<Vec<_>>(), o.died),
                    dna: dna.clone(),
                    variant: if dna.is_empty() { "grid-panic".into() } else { "panic".into() },
                    source: src.clone(),
                    unit_body: Some(units[k].body.clone()),
                });
            } else {
                rep.count("fallback_only_panic(not reported)", 1);
            }
        }
        check::clean_work("C17");
    }
    // fragment lane: the same kinds of requests as a `macro_rules!` body hands them to the derive - field types, discriminants,
    // parameter values and Into targets inside invisible None-delimited groups - valid and token-mutated
    {
        let n2 = ctx.scale(30000, 300000);
        let dnas2: Vec<Vec<u16>> = check::draw_values(ctx.seed, 0xC17A, n2, 520);
        let srcs2: Vec<String> = dnas2.par_iter().map(|d| grouped_request(d)).collect();
        let isos2 = engine::expand_isolated("C17-iso-frag", &srcs2, false);
        let mut cands: Vec<(String, String, Vec<u16>)> = Vec::new();
        let mut sites: std::collections::BTreeMap<String, usize> = Default::default();
        for (i, iso) in isos2.into_iter().enumerate() {
            rep.evaluations += 1;
            if !srcs2[i].contains("__ng") {
                rep.count("fragment_lane_without_fragment", 1);
                continue;
            }
            rep.class("request_with_macro_fragments");
            match iso {
                engine::Iso::Done(Expansion::Panic(m)) => {
                    let c = sites.entry(panic_site(&m)).or_insert(0);
                    *c += 1;
                    if *c <= 4 {
                        cands.push((srcs2[i].clone(), m, dnas2[i].clone()));
                    }
                },
                engine::Iso::Done(Expansion::Ok(t)) => {
                    rep.count("fragment_lane_accepted", 1);
                    if t == "<empty>" {
                        rep.violations.push(Failure { msg: "the macro accepts the request and generates nothing".into(), dna: dnas2[i].clone(), variant: "frag-empty-ok".into(), source: srcs2[i].clone(), unit_body: Some(macro_form(&srcs2[i])) });
                    }
                },
                engine::Iso::Done(Expansion::Err(_)) => {
                    rep.count("fragment_lane_refused", 1);
                    rep.nontrivial.insert(fnv64(&srcs2[i]));
                },
                engine::Iso::Done(Expansion::Unparsable(_)) => rep.count("fragment_lane_not_a_derive_input", 1),
                engine::Iso::Crashed(how) => {
                    if cands.len() < 16 {
                        cands.push((srcs2[i].clone(), format!("the expanding process died: {how}"), dnas2[i].clone()));
                    }
                },
                engine::Iso::Hung(true) => {
                    if cands.len() < 16 {
                        cands.push((srcs2[i].clone(), format!("does not terminate: the expanding process used up {} s of CPU time on this request", engine::CHILD_CPU_LIMIT), dnas2[i].clone()));
                    }
                },
                engine::Iso::Hung(false) => rep.inconclusive.push("an expansion of the fragment lane gave no answer within the wall-clock watchdog".into()),
            }
        }
        rep.extra.insert("fragment_lane_panic_sites".into(), json!(sites));
        if !cands.is_empty() {
            // confirmation with the real compiler: the same tokens, produced by a macro_rules! definition
            let units: Vec<Unit> = cands.iter().map(|(src, _, _)| Unit { body: macro_form(src), has_run: false }).collect();
            let (outs, _) = check::eval_units("C17-frag", &units, &so, 1, false);
            for (k, o) in outs.iter().enumerate() {
                let (src, m, dna) = &cands[k];
                rep.count("panic_candidates_confirmed_through_rustc", 1);
                if o.proc_macro_panic || o.died.is_some() {
                    rep.violations.push(Failure {
                        msg: format!("the shipping macro does not end with items or a diagnostic on a definition produced by macro_rules! (in-process: {m}); rustc: {:?} {:?}", o.compile_errors.iter().take(2).collect::<Vec<_>>(), o.died),
                        dna: dna.clone(),
                        variant: "frag-panic".into(),
                        source: src.clone(),
                        unit_body: Some(units[k].body.clone()),
                    });
                } else {
                    rep.count("fallback_only_panic(not reported)", 1);
                }
            }
            check::clean_work("C17-frag");
        }
    }
    // nesting ladder through rustc child processes
    let depths: &[usize] = if ctx.thorough() { &[16, 32, 64, 128, 256, 512, 1024, 2048, 4096] } else { &[16, 64, 256, 1024, 4096] };
    let dir = engine::work_dir("C17-ladder");
    let jobs: Vec<(usize, usize)> = (0..4).flat_map(|k| depths.iter().map(move |d| (k, *d))).collect();
    let ladder: Vec<(usize, usize, Option<String>, bool)> = jobs
        .par_iter()
        .map(|(k, depth)| {
            let src = ladder_source(*k, *depth);
            let p = dir.join(format!("l{k}_{depth}.rs"));
            std::fs::write(&p, &src).unwrap();
            let exe = dir.join(format!("l{k}_{depth}"));
            let r = engine::rustc_compile(&p, &exe, &so, &["--emit=metadata"]);
            let panicked = r.diags.iter().any(|d| d.message.contains("panicked"));
            let _ = std::fs::remove_file(&p);
            (*k, *depth, r.crashed.clone(), panicked)
        })
        .collect();
    for (k, depth, crashed, panicked) in ladder {
        rep.evaluations += 1;
        rep.count("ladder_compilations", 1);
        if crashed.is_some() || panicked {
            let what = format!("nesting depth {depth} (ladder kind {k}): {}", crashed.clone().unwrap_or_else(|| "proc-macro panicked".into()));
            if depth > 64 {
                if let Some(kf) = known.iter().find(|kf| kf.property == "C17" && kf.status == "open" && kf.signature == "deep_nesting_overflows_stack") {
                    rep.known(&kf.id, &kf.what);
                    continue;
                }
            }
            rep.violations.push(Failure { msg: what, dna: vec![], variant: "ladder".into(), source: format!("ladder kind {k} depth {depth}"), unit_body: Some(ladder_source(k, depth).replace("fn main() {}\n", "")) });
        }
    }
    check::clean_work("C17-ladder");
    if ctx.thorough() || std::env::var("VERIF_FUZZ").is_ok() {
        fuzz_lane(ctx, &mut rep, &so, &known, &dnas);
    }
    rep.finish()
}

/// Coverage-guided lane (thorough tier): the cargo-fuzz target in /verif/fuzz decodes bytes into the same
/// choice stream; crashing inputs are re-evaluated here and confirmed through rustc like any other candidate.
fn fuzz_lane(ctx: &Ctx, rep: &mut Report, so: &std::path::Path, known: &[check::Known], seeds: &[Vec<u16>]) {
    use std::process::Command;
    let work = engine::work_dir("C17-fuzz");
    let corpus = work.join("corpus");
    let artifacts = work.join("artifacts");
    let _ = std::fs::remove_dir_all(&corpus);
    let _ = std::fs::remove_dir_all(&artifacts);
    std::fs::create_dir_all(&corpus).unwrap();
    std::fs::create_dir_all(&artifacts).unwrap();
    // starting corpus: the first choice streams of this run's proptest draw (small valid inputs)
    for (i, d) in seeds.iter().take(64).enumerate() {
        let bytes: Vec<u8> = d.iter().flat_map(|v| v.to_le_bytes()).collect();
        let _ = std::fs::write(corpus.join(format!("seed{i:03}")), bytes);
    }
    let envs = [("RUSTFLAGS", "--cfg magiclen_educe_verif"), ("CARGO_NET_OFFLINE", "true")];
    let build = Command::new("cargo")
        .args(["+nightly", "fuzz", "build", "--fuzz-dir", "/verif/fuzz", "expand"])
        .envs(envs)
        .current_dir("/verif/harness/vcheck")
        .output();
    match build {
        Ok(o) if o.status.success() => {},
        Ok(o) => {
            rep.inconclusive.push(format!("the libFuzzer target does not build: {}", String::from_utf8_lossy(&o.stderr).lines().rev().take(6).collect::<Vec<_>>().join(" / ")));
            return;
        },
        Err(e) => {
            rep.inconclusive.push(format!("cargo +nightly fuzz is not available: {e}"));
            return;
        },
    }
    let runs = ctx.scale(20000, 30000);
    let jobs = 16;
    let out = Command::new("cargo")
        .args(["+nightly", "fuzz", "run", "--fuzz-dir", "/verif/fuzz", "expand"])
        .arg(&corpus)
        .arg("--")
        .args([
            &format!("-runs={runs}"),
            &format!("-seed={}", ctx.seed.wrapping_add(1)),
            "-max_len=1200",
            "-len_control=0",
            &format!("-jobs={jobs}"),
            &format!("-workers={jobs}"),
            &format!("-artifact_prefix={}/", artifacts.display()),
        ])
        .envs(envs)
        .current_dir(&work)
        .output();
    let Ok(out) = out else {
        rep.inconclusive.push("could not run the libFuzzer target".into());
        return;
    };
    // every job logs "Done N runs"
    let mut total = 0u64;
    let mut cov = 0u64;
    for k in 0..jobs {
        if let Ok(t) = std::fs::read_to_string(work.join(format!("fuzz-{k}.log"))) {
            for l in t.lines() {
                if let Some(rest) = l.strip_prefix("Done ") {
                    total += rest.split(' ').next().and_then(|n| n.parse::<u64>().ok()).unwrap_or(0);
                }
                if let Some(i) = l.find(" cov: ") {
                    cov = cov.max(l[i + 6..].split(' ').next().and_then(|n| n.parse::<u64>().ok()).unwrap_or(0));
                }
            }
        }
    }
    rep.count("libfuzzer_executions", total);
    rep.count("libfuzzer_max_edge_coverage", cov);
    rep.evaluations += total;
    let _ = out;
    // crashing inputs
    let mut crashes: Vec<Vec<u16>> = Vec::new();
    if let Ok(rd) = std::fs::read_dir(&artifacts) {
        for e in rd.flatten() {
            if let Ok(bytes) = std::fs::read(e.path()) {
                crashes.push(bytes.chunks(2).map(|c| u16::from_le_bytes([c[0], *c.get(1).unwrap_or(&0)])).collect());
            }
        }
    }
    rep.count("libfuzzer_crashing_inputs", crashes.len() as u64);
    if total == 0 && crashes.is_empty() {
        rep.inconclusive.push("the libFuzzer campaign reported no executions".into());
    }
    for dna in crashes {
        let r = eval(&dna);
        let unit = Unit { body: format!("use educe::Educe;\n#[derive(Educe)]\n{}\n", r.src), has_run: false };
        let o = engine::eval_batch("C17-fuzz-confirm", &[unit.clone()], so, "", false);
        let u = &o.units[0];
        if u.proc_macro_panic || u.died.is_some() {
            let site = match &r.result {
                Expansion::Panic(m) => panic_site(m),
                _ => String::new(),
            };
            if let Some(kf) = known.iter().find(|kf| kf.property == "C17" && kf.status == "open" && kf.signature == "panic_in_hash_union_hint" && site.contains("hash/panic.rs")) {
                rep.known(&kf.id, &kf.what);
                continue;
            }
            rep.violations.push(Failure { msg: format!("libFuzzer input makes the shipping macro panic: {:?} {:?}", r.result, u.died), dna, variant: "libfuzzer".into(), source: r.src.clone(), unit_body: Some(unit.body) });
        } else {
            rep.count("libfuzzer_crash_not_reproduced_by_rustc(fallback only)", 1);
        }
    }
    check::clean_work("C17-fuzz-confirm");
    check::clean_work("C17-fuzz");
}
