//! One module per property; `dispatch` maps the CLI to them.
use crate::check::Ctx;

pub mod c01;
pub mod common;

pub fn dispatch(ctx: &Ctx, args: &[String]) -> i32 {
    match ctx.prop.as_str() {
        "C01" => c01::run(ctx),
        "dump" => common::dump(ctx, args),
        other => {
            eprintln!("unknown property {other}");
            2
        },
    }
}
