//! One module per property; `dispatch` maps the CLI to them.
use crate::check::Ctx;

pub mod behave;
pub mod c01;
pub mod c02;
pub mod c03;
pub mod c04;
pub mod c05;
pub mod c06;
pub mod c07;
pub mod c08;
pub mod c09;
pub mod c10;
pub mod c11;
pub mod c12;
pub mod c13;
pub mod c14;
pub mod c15;
pub mod c16;
pub mod c17;
pub mod c18;
pub mod c19;
pub mod c20;
pub mod common;

/// Replay tier: shrunk cases of defects that were found and repaired live in /verif/regress/<ID>/ and are re-run
/// (through the property's own `--replay` path, in child processes) before every generated run. A fixed entry
/// suppresses nothing: if the defect returns, the regress file is reported as the replay of the violation.
fn regress(ctx: &Ctx) -> Vec<String> {
    use rayon::prelude::*;
    let dir = std::path::Path::new(crate::engine::VERIF).join("regress").join(&ctx.prop);
    let Ok(rd) = std::fs::read_dir(&dir) else { return vec![] };
    let files: Vec<std::path::PathBuf> = rd.flatten().map(|e| e.path()).filter(|p| p.extension().map(|e| e == "json").unwrap_or(false)).collect();
    let exe = std::env::current_exe().unwrap();
    files
        .par_iter()
        .filter_map(|f| {
            let out = std::process::Command::new(&exe).arg(&ctx.prop).arg("--replay").arg(f).env("VERIF_SEED", ctx.seed.to_string()).output().ok()?;
            if out.status.code() == Some(1) {
                Some(f.display().to_string())
            } else {
                None
            }
        })
        .collect()
}

pub fn dispatch(ctx: &Ctx, args: &[String]) -> i32 {
    let is_prop = ctx.prop.len() == 3 && ctx.prop.starts_with('C');
    let failed = if ctx.replay.is_none() && is_prop { regress(ctx) } else { vec![] };
    let mut code = dispatch_inner(ctx, args);
    for f in &failed {
        println!("VIOLATION property={} replay={}", ctx.prop, f);
        println!("  detail: a defect that had been repaired is back (regression corpus)");
        code = crate::check::EXIT_VIOLATION;
    }
    code
}

fn dispatch_inner(ctx: &Ctx, args: &[String]) -> i32 {
    match ctx.prop.as_str() {
        "C01" => c01::run(ctx),
        "C02" => c02::run(ctx),
        "C03" => c03::run(ctx),
        "C04" => c04::run(ctx),
        "C05" => c05::run(ctx),
        "C06" => c06::run(ctx),
        "C07" => c07::run(ctx),
        "C08" => c08::run(ctx),
        "C09" => c09::run(ctx),
        "C10" => c10::run(ctx),
        "C11" => c11::run(ctx),
        "C12" => c12::run(ctx),
        "C13" => c13::run(ctx),
        "C14" => c14::run(ctx),
        "C15" => c15::run(ctx),
        "C16" => c16::run(ctx),
        "C17" => c17::run(ctx),
        "C18" => c18::run(ctx),
        "C19" => c19::run(ctx),
        "C20" => c20::run(ctx),
        "C16-child" => c16::child(ctx, args),
        "expand-child" => crate::engine::expand_child(args),
        "dump" => common::dump(ctx, args),
        other => {
            eprintln!("unknown property {other}");
            2
        },
    }
}
