//! C19 — generated code is insulated from the names at the derive site.
use std::collections::{BTreeMap, BTreeSet};

use serde_json::json;

use crate::check::{self, Ctx, Failure, RVerdict, Report};
use crate::dna::Dna;
use crate::engine::{self, Expansion, Unit};
use crate::gen::{self, GenCfg};
use crate::items;
use crate::props::behave::{self, Behaviour, Env, Prepared};
use crate::props::{c02, c03, c05, c06, c07, c08, c09, c10};
use crate::spec::*;

const KEYWORDS: [&str; 52] = [
    "as", "break", "const", "continue", "crate", "else", "enum", "extern", "false", "fn", "for", "if", "impl", "in", "let", "loop", "match", "mod", "move",
    "mut", "pub", "ref", "return", "self", "Self", "static", "struct", "super", "trait", "true", "type", "unsafe", "use", "where", "while", "async", "await",
    "dyn", "abstract", "become", "box", "do", "final", "macro", "override", "priv", "typeof", "unsized", "virtual", "yield", "try", "union",
];
/// names the observers themselves use at module level
const RESERVED: [&str; 36] = [
    // (`a`, `b`, `x`, `y`: parameters of the observers; a variant of that name makes rustc refuse them, E0170)
    "a", "b", "x", "y", "vals", "variant_of", "run", "fp", "same", "disc", "expected", "read", "obs", "o", "oracle_eq", "oracle_fields", "field_seqs", "check_clone", "Calls",
    "RawKey", "Via", "OracleDbg", "Cell", "twin_vals", "addr_deref", "addr_deref_mut", "hostile", "prelude", "educe", "Educe", "Out", "Key", "main", "core", "std", "alloc",
];

fn idents_of(ts: proc_macro2::TokenStream, out: &mut BTreeSet<String>) {
    for tt in ts {
        match tt {
            proc_macro2::TokenTree::Ident(i) => {
                out.insert(i.to_string());
            },
            proc_macro2::TokenTree::Group(g) => idents_of(g.stream(), out),
            _ => {},
        }
    }
}

/// identifiers that occur in educe's output but not in the input, per trait
pub fn harvest(seed: u64) -> (Vec<String>, BTreeMap<String, BTreeSet<String>>, Vec<String>) {
    let mut all: BTreeSet<String> = BTreeSet::new();
    let mut per: BTreeMap<String, BTreeSet<String>> = BTreeMap::new();
    let mut prefixes: BTreeSet<String> = BTreeSet::new();
    let trees = check::draw(seed, 0x4A7, 400, 420);
    let cfg = GenCfg::full();
    for t in trees {
        let dna = t.current();
        let mut d = Dna::new(&dna);
        let b = gen::build(&mut d, &cfg);
        let src = b.spec.render_def_with("", true);
        let Ok(input) = src.parse::<proc_macro2::TokenStream>() else { continue };
        let mut mine = BTreeSet::new();
        idents_of(input, &mut mine);
        if let Expansion::Ok(text) = engine::expand_src(&src) {
            if let Ok(its) = items::split_items_str(&text) {
                for it in its {
                    let Ok(ts) = it.text.parse::<proc_macro2::TokenStream>() else { continue };
                    let mut ids = BTreeSet::new();
                    idents_of(ts, &mut ids);
                    for id in ids {
                        if mine.contains(&id) || KEYWORDS.contains(&id.as_str()) || RESERVED.contains(&id.as_str()) || id.starts_with("r#") || id == "_" {
                            continue;
                        }
                        // not educe's: primitive types, the harness' own helper names, user methods and rename targets
                        const PRIMS: [&str; 19] = ["u8", "u16", "u32", "u64", "u128", "usize", "i8", "i16", "i32", "i64", "i128", "isize", "f32", "f64", "bool", "char", "str", "static", "String"];
                        const MINE: [&str; 24] = ["Wrap", "Inc", "Tracked", "Weird", "Wrapper", "PhantomData", "Yes", "Inner", "NoDebug", "NoClone", "NoCopy", "NoPartialEq", "NoEq", "NoPartialOrd", "NoOrd", "NoHash", "NoDefault", "NoInto", "Renamed", "EnumName", "Shown", "Vec", "Option", "Box"];
                        if PRIMS.contains(&id.as_str()) || MINE.contains(&id.as_str()) || id.starts_with("m_") || id.starts_with("NonZero") || id == "num" {
                            continue;
                        }
                        if id.len() >= 2 && id.starts_with('k') && id[1..].chars().all(|c| c.is_ascii_digit()) {
                            continue;
                        }
                        if id.ends_with('x') && mine.contains(&id[..id.len() - 1]) {
                            continue;
                        }
                        // bindings derived from the user's own field names follow the field: remember HOW they are derived
                        // (the prefix), so that sibling fields can be given exactly such names
                        let mut derived = false;
                        for m in mine.iter() {
                            if m.len() >= 1 && id.len() > m.len() && id.ends_with(m.as_str()) {
                                let pre = &id[..id.len() - m.len()];
                                if pre.len() <= 4 && pre.chars().all(|c| c == '_' || c.is_ascii_lowercase()) && pre.contains('_') {
                                    prefixes.insert(pre.to_string());
                                    derived = true;
                                }
                            }
                        }
                        if derived {
                            continue;
                        }
                        // bindings derived from the user's own field names (`_s_a`, `_d_a`, `v_a`, `_a`) follow the field
                        per.entry(items::owner(&it)).or_default().insert(id.clone());
                        all.insert(id);
                    }
                }
            }
        }
    }
    // names of the std paths are only interesting as user *type-like* names; keep everything, the classes tell them apart
    (all.into_iter().collect(), per, prefixes.into_iter().collect())
}

fn behaviours() -> Vec<Behaviour> {
    vec![c02::behaviour(), c03::behaviour(), c05::behaviour(), c06::behaviour(), c07::behaviour(), c08::behaviour(), c09::behaviour(), c10::behaviour()]
}

struct Case {
    p: Prepared,
    prop: &'static str,
    env_name: &'static str,
    hostile_hits: usize,
}

fn prepare(dna: &[u16], pool: &[String], per: &BTreeMap<String, BTreeSet<String>>, prefixes: &[String]) -> Option<Case> {
    let mut d = Dna::new(dna);
    let bs = behaviours();
    let b = &bs[d.pick(bs.len())];
    let env_kind = d.weighted(&[30, 25, 15, 30]);
    // Into targets are user-written types spelled with prelude names (String, Option<..>): not inside the shadowing module
    let env_kind = if b.prop == "C10" && (env_kind == 1 || env_kind == 2) { 0 } else { env_kind };
    let (env, env_name) = match env_kind {
        0 => (Env { names: Some(pool.to_vec()), shadow: false, derive_prefixes: vec![] }, "E3-internal-names"),
        1 => (Env { names: None, shadow: true, derive_prefixes: vec![] }, "E2-shadowed-prelude"),
        2 => (Env { names: Some(pool.to_vec()), shadow: true, derive_prefixes: prefixes.to_vec() }, "E2+E3"),
        _ => (Env { names: None, shadow: false, derive_prefixes: prefixes.to_vec() }, "E3-derived-binding-names"),
    };
    // the rest of the stream builds the spec exactly as the behaviour's own check would
    let rest: Vec<u16> = dna.iter().skip(d.used()).copied().collect();
    let p = behave::prepare_in(b, &rest, &env)?;
    // how many user identifiers coincide with identifiers of the generated impls of the educed traits?
    let mut user: BTreeSet<String> = BTreeSet::new();
    user.insert(p.spec.name.clone());
    for t in &p.spec.gens.types {
        user.insert(t.name.clone());
    }
    for c in &p.spec.gens.consts {
        user.insert(c.name.clone());
    }
    for l in &p.spec.gens.lifetimes {
        user.insert(l.0.clone());
    }
    for v in &p.spec.variants {
        user.insert(v.name.clone());
        for f in &v.fields {
            if let Some(n) = &f.name {
                user.insert(n.clone());
            }
        }
    }
    let mut hits = 0;
    for a in &p.spec.traits {
        if let Some(ids) = per.get(a.tr.name()) {
            hits += user.iter().filter(|u| ids.contains(*u)).count();
        }
    }
    Some(Case { p, prop: b.prop, env_name, hostile_hits: hits })
}

pub fn run(ctx: &Ctx) -> i32 {
    if ctx.replay.is_some() {
        return check::replay_unit(ctx);
    }
    let mut rep = Report::new(
        ctx,
        "the types and observers of C02, C03, C05, C06, C07, C08, C09 and C10 re-generated in hostile naming environments: (E3) every user identifier (fields, \
         variants, lifetimes, type and const parameters, the type, and user functions used as `method = name`) drawn from the identifiers harvested in this run from educe's own output, (E2) inside a \
         module that defines items called Option, Some, None, Result, Ok, Err, Ordering, Clone, Default, Debug, ... core, std, and both; plus (E1) a \
         #![no_std] library lane; oracle: compiles warning-free and the behavioural observers report no disagreement (they pass in the neutral context in \
         their own checks); non-trivial = a user identifier coincides with an identifier of an educed trait's generated impl, or the shadowing module is used",
    );
    rep.assumptions.push("macros (stringify!, unreachable!) are not shadowed: the statement lists prelude names, not macros".into());
    let known = check::load_known();
    let so = match engine::build_proc_macro() {
        Ok(s) => s,
        Err(e) => {
            rep.inconclusive.push(e.0);
            return rep.finish();
        },
    };
    let (pool, per, prefixes) = harvest(ctx.seed);
    rep.extra.insert("harvested_binding_prefixes".into(), json!(prefixes));
    let _ = crate::known::HARVEST.set(pool.clone());
    rep.extra.insert("harvested_identifiers".into(), json!(pool));
    if pool.len() < 10 {
        rep.inconclusive.push(format!("identifier harvest is implausibly small: {:?}", pool));
        return rep.finish();
    }
    let n = ctx.scale(6000, 12000);
    let trees = check::draw(ctx.seed, 0xC19, n, 540);
    let mut cases: Vec<(usize, Case)> = Vec::new();
    for (i, t) in trees.iter().enumerate() {
        match prepare(&t.current(), &pool, &per, &prefixes) {
            Some(c) => cases.push((i, c)),
            None => rep.count("skipped_by_generator", 1),
        }
    }
    let units: Vec<Unit> = cases.iter().map(|(_, c)| c.p.unit.clone()).collect();
    let (outs, stray) = check::eval_units("C19", &units, &so, 20, true);
    for s in stray.iter().take(3) {
        rep.inconclusive.push(format!("diagnostic outside any generated type: {s}"));
    }
    for (k, o) in outs.iter().enumerate() {
        let (ti, c) = &cases[k];
        rep.evaluations += 1;
        rep.class(c.env_name);
        rep.class(&format!("observer_{}", c.prop));
        rep.count("runtime_checks", o.checks);
        rep.count("user_identifiers_hitting_generated_identifiers", c.hostile_hits as u64);
        rep.count("method_functions_given_generated_names", c.p.spec.method_alias.len() as u64);
        if !c.p.spec.method_alias.is_empty() {
            rep.class("method_function_named_like_generated_identifier");
        }
        if c.hostile_hits > 0 || c.env_name != "E3-internal-names" {
            // (derived-binding cases count when a field was actually renamed to prefix + sibling)
            rep.nontrivial.insert(fnv64(&c.p.unit.body));
        }
        if rep.samples.len() < 4 && k % 29 == 0 {
            rep.sample(json!({"environment": c.env_name, "observer": c.prop, "definition": c.p.spec.render_def()}));
        }
        if let RVerdict::Fail(m) = check::judge_default(o, true) {
            if let Some(kf) = crate::known::explain(&known, "C19", &c.p.spec, &m) {
                rep.known(&kf.id, &kf.what);
                continue;
            }
            rep.violations.push(Failure { msg: format!("[{} / {}] {m}", c.env_name, c.prop), dna: trees[*ti].current(), variant: c.env_name.into(), source: c.p.spec.render_def(), unit_body: Some(c.p.unit.body.clone()) });
        }
    }
    check::clean_work("C19");
    // ---- E2 over every trait (compile only): stand-alone Copy / Eq / Ord and the other trait sets the behavioural
    // observers do not reach, inside the shadowing module
    {
        let n2 = ctx.scale(2500, 8000);
        let trees2 = check::draw(ctx.seed, 0xC192, n2, 520);
        let mut cfg2 = GenCfg::full();
        cfg2.plain_types_only = true;
        cfg2.type_expr = false;
        cfg2.raw_idents = false;
        cfg2.pool.retain(|t| *t != Tr::Into);
        let mut units2: Vec<Unit> = Vec::new();
        let mut defs2: Vec<(usize, String)> = Vec::new();
        for (i, t) in trees2.iter().enumerate() {
            let dna = t.current();
            let mut d = Dna::new(&dna);
            let b = gen::build(&mut d, &cfg2);
            if crate::known::pre_matches(&known, "C01", &b.spec) {
                continue;
            }
            defs2.push((i, b.spec.render_def()));
            units2.push(Unit {
                body: format!(
                    "pub mod hostile {{\nuse educe::Educe;\nuse crate::prelude::*;\n{}\n{}{}}}\n",
                    behave::shadows_for(&b.spec),
                    b.spec.render_def(),
                    b.spec.render_support_impls()
                ),
                has_run: false,
            });
        }
        let (outs2, _) = check::eval_units("C19-e2c", &units2, &so, 40, false);
        for (k, o) in outs2.iter().enumerate() {
            rep.evaluations += 1;
            rep.class("E2-shadowed-prelude-all-traits(compile)");
            rep.nontrivial.insert(fnv64(&defs2[k].1));
            if let RVerdict::Fail(m) = check::judge_default(o, false) {
                if let Some(kf) = crate::known::explain(&known, "C19", &{
                    let dna = trees2[defs2[k].0].current();
                    let mut d = Dna::new(&dna);
                    gen::build(&mut d, &cfg2).spec
                }, &m) {
                    rep.known(&kf.id, &kf.what);
                    continue;
                }
                rep.violations.push(Failure { msg: format!("[E2 all traits, compile] {m}"), dna: trees2[defs2[k].0].current(), variant: "E2-compile".into(), source: defs2[k].1.clone(), unit_body: Some(units2[k].body.clone()) });
            }
        }
        check::clean_work("C19-e2c");
    }
    // ---- E1: #![no_std] library, compile only
    let n1 = ctx.scale(2500, 8000);
    let trees1 = check::draw(ctx.seed, 0xC191, n1, 520);
    let mut cfg = GenCfg::full();
    cfg.plain_types_only = true;
    cfg.method = false;
    cfg.type_expr = false;
    cfg.pool.retain(|t| *t != Tr::Into);
    let mut units1: Vec<Unit> = Vec::new();
    let mut defs: Vec<String> = Vec::new();
    for t in &trees1 {
        let dna = t.current();
        let mut d = Dna::new(&dna);
        let b = gen::build(&mut d, &cfg);
        if crate::known::pre_matches(&known, "C01", &b.spec) {
            continue;
        }
        defs.push(b.spec.render_def());
        units1.push(Unit { body: format!("use educe::Educe;\n{}{}", b.spec.render_def(), b.spec.render_support_impls()), has_run: false });
    }
    let chunks: Vec<&[Unit]> = units1.chunks(60).collect();
    use rayon::prelude::*;
    let outs1: Vec<Vec<engine::UnitOutcome>> = chunks.par_iter().enumerate().map(|(ci, ch)| engine::eval_nostd_lib(&format!("C19-nostd/c{ci}"), ch, &so)).collect();
    let mut k = 0;
    for chunk in outs1 {
        for o in chunk {
            rep.evaluations += 1;
            rep.class("E1-no_std");
            rep.nontrivial.insert(fnv64(&defs[k]));
            if let RVerdict::Fail(m) = check::judge_default(&o, false) {
                rep.violations.push(Failure { msg: format!("[E1 no_std] {m}"), dna: vec![], variant: "E1".into(), source: defs[k].clone(), unit_body: None });
            }
            k += 1;
        }
    }
    check::clean_work("C19-nostd");
    rep.finish()
}
