//! C09 — Deref and DerefMut expose exactly the designated field.
use crate::check::Ctx;
use crate::dna::Dna;
use crate::gen::GenCfg;
use crate::props::behave::*;
use crate::spec::*;

fn cfg(d: &mut Dna) -> GenCfg {
    let must: Vec<Tr> = if d.chance(55) { vec![Tr::Deref, Tr::DerefMut] } else { vec![Tr::Deref] };
    let mut c = GenCfg::behaviour(&must, &[Tr::Debug, Tr::Clone]);
    c.trait_pct = 10;
    c.attr_pct = 25;
    c.max_variants = 4;
    c.min_variants = 1;
    c.partial_types = false;
    c
}

/// make more fields share the target type, so that picking the wrong one is observable
fn adjust(s: &mut TypeSpec, d: &mut Dna) -> bool {
    for v in s.variants.iter_mut() {
        let Some(target) = v.fields.iter().find(|f| f.is_marker(Tr::Deref)).or_else(|| v.fields.first()).map(|f| f.ty.clone()) else { continue };
        if target.refs > 0 {
            continue;
        }
        for f in v.fields.iter_mut() {
            let plain = f.attrs.iter().all(|a| matches!(a.tr, Tr::Debug | Tr::Clone)) && f.ty.params.is_empty() && f.default_expect.is_none();
            if plain && f.ty.inst != target.inst && d.chance(50) {
                // only when no attribute depends on the old type
                if f.attrs.iter().all(|a| a.method().is_none()) {
                    f.ty = target.clone();
                }
            }
        }
    }
    // DerefMut educed alone, next to a Deref impl the user wrote by hand (single-field structs: the hand-written impl is then
    // unambiguous without consulting the markers)
    if s.kind == Kind::Struct && s.has(Tr::DerefMut) && s.variants[0].fields.len() == 1 && s.variants[0].fields[0].attrs.iter().all(|a| a.tr != Tr::Deref) && d.chance(30) {
        let f = &s.variants[0].fields[0];
        let mut target = f.ty.src.clone();
        for _ in 0..f.ty.refs {
            let t = target.trim_start_matches('&').trim_start();
            let t = if t.starts_with('\'') { t.split_once(' ').map(|x| x.1).unwrap_or(t) } else { t };
            target = t.trim_start_matches("mut ").to_string();
        }
        let access = match &f.name {
            Some(n) => format!("self.{n}"),
            None => "self.0".to_string(),
        };
        let imp = format!(
            "impl{} ::core::ops::Deref for {}{} {{ type Target = {target}; fn deref(&self) -> &{target} {{ &{}{access} }} }}",
            s.gens.impl_decl(),
            s.self_ty(),
            s.gens.where_clause(),
            "*".repeat(f.ty.refs as usize)
        );
        s.extra_items.push(imp);
        s.traits.retain(|a| a.tr != Tr::Deref);
    }
    // the same target type under another spelling in a later variant: all variants must agree on the type, not on its tokens
    if s.kind == Kind::Enum && s.variants.len() >= 2 {
        for vi in 1..s.variants.len() {
            for t in [Tr::Deref, Tr::DerefMut] {
                if !s.has(t) || s.variants[vi].fields.is_empty() || !d.chance(30) {
                    continue;
                }
                let k = designated(&s.variants[vi], t);
                let f = &mut s.variants[vi].fields[k];
                let re = match f.ty.src.as_str() {
                    "u8" | "i16" | "u64" | "bool" | "char" | "u32" | "i64" | "u16" => format!("::core::primitive::{}", f.ty.src),
                    "String" => "::std::string::String".to_string(),
                    "Vec<u8>" => "::std::vec::Vec<u8>".to_string(),
                    "Option<u8>" => "::core::option::Option<u8>".to_string(),
                    _ => continue,
                };
                f.ty.src = re.clone();
                f.ty.inst = re;
            }
        }
    }
    true
}

fn designated(v: &VariantSpec, t: Tr) -> usize {
    v.fields.iter().position(|f| f.is_marker(t)).unwrap_or(0)
}

pub fn render(s: &TypeSpec) -> Option<Rendered> {
    if s.variants.is_empty() {
        return None;
    }
    let ty = s.inst_ty();
    let has_mut = s.has(Tr::DerefMut);
    // target type: the designated field's type with references stripped
    let v0 = &s.variants[0];
    let f0 = &v0.fields[designated(v0, Tr::Deref)];
    let target = {
        let mut t = f0.ty.inst.as_str();
        while let Some(r) = t.strip_prefix("&'static mut ").or_else(|| t.strip_prefix("&'static ")) {
            t = r;
        }
        t.to_string()
    };
    let mut o = String::new();
    o.push_str(&format!("pub fn fp(a: &{ty}) -> (usize, ::std::vec::Vec<i64>) {{\n    let b = a;\n"));
    o.push_str(&match_same_variant(
        s,
        |vi| {
            let v = &s.variants[vi];
            let keys: Vec<String> = (0..v.fields.len()).map(|i| format!("Key::key(a{i})")).collect();
            format!("{}({vi}, vec![{}])", touch_all(v), keys.join(", "))
        },
        "unreachable!()",
    ));
    o.push_str("}\n");
    for (fname, tr) in [("addr_deref", Tr::Deref), ("addr_deref_mut", Tr::DerefMut)] {
        if tr == Tr::DerefMut && !has_mut {
            continue;
        }
        o.push_str(&format!("pub fn {fname}(a: &{ty}) -> (usize, *const u8) {{\n    let b = a;\n"));
        o.push_str(&match_same_variant(
            s,
            |vi| {
                let v = &s.variants[vi];
                let k = designated(v, tr);
                let f = &v.fields[k];
                // the binding is a reference to the field; look through the field's own references as well
                let addr = format!("&{}a{k} as *const {target} as *const u8", "*".repeat(f.ty.refs as usize + 1));
                format!("{}({k}, {addr})", touch_all(v))
            },
            "unreachable!()",
        ));
        o.push_str("}\n");
    }
    // sentinel: the last value of the target's domain
    let sentinel = f0.ty.vals.last().cloned().unwrap_or_default();
    let sentinel = if f0.ty.refs > 0 {
        let e = sentinel.trim_start_matches('&').to_string();
        match e.strip_prefix("::std::boxed::Box::leak(::std::boxed::Box::new(") {
            Some(inner) => inner[..inner.len().saturating_sub(2)].to_string(),
            None => e,
        }
    } else {
        sentinel
    };
    o.push_str("pub fn run(o: &mut Out) {\n    let n = vals().len();\n");
    o.push_str(&format!("    o.check(::core::any::TypeId::of::<<{ty} as ::core::ops::Deref>::Target>() == ::core::any::TypeId::of::<{target}>(), || \"Deref::Target is not the designated field's type with its references stripped ({target})\".to_string());\n"));
    o.push_str("    for i in 0..n {\n        let mut x = vals().swap_remove(i);\n");
    // no type annotation on the reference: `let r: &Target = &*x` would let a deref coercion repair a wrong `Target`
    o.push_str(&format!("        {{ let r: &<{ty} as ::core::ops::Deref>::Target = ::core::ops::Deref::deref(&x); let p = r as *const <{ty} as ::core::ops::Deref>::Target as *const u8; let (k, q) = addr_deref(&x);\n"));
    o.push_str("          o.check(p == q, || format!(\"value {i}: &*x does not point at the designated field {k}\")); o.tally(\"derefs\", 1); }\n");
    if has_mut {
        o.push_str("        let before = fp(&x);\n        let (k, q) = addr_deref_mut(&x);\n");
        // (no annotation on `m`, see above; a wrong Target makes the assignment ill-typed or moves the address)
        o.push_str(&format!("        let p = {{ let m = ::core::ops::DerefMut::deref_mut(&mut x); let p = m as *mut <{ty} as ::core::ops::Deref>::Target as *const u8; *m = {sentinel}; p }};\n"));
        o.push_str("        o.check(p == q, || format!(\"value {i}: &mut *x does not point at the field marked DerefMut ({k})\"));\n");
        o.push_str("        let after = fp(&x);\n        o.check(after.0 == before.0, || format!(\"value {i}: the variant changed\"));\n");
        o.push_str(&format!("        let sk = Key::key(&{sentinel});\n"));
        o.push_str("        for f in 0..before.1.len() {\n            if f == k { o.check(after.1[f] == sk, || format!(\"value {i}: writing through &mut *x did not change field {k}\")); }\n");
        o.push_str("            else { o.check(after.1[f] == before.1[f], || format!(\"value {i}: writing through &mut *x changed field {f} (designated {k})\")); }\n        }\n        o.tally(\"deref_muts\", 1);\n");
    }
    o.push_str("    }\n}\n");
    let multi_target = s.variants.iter().any(|v| {
        let k = designated(v, Tr::Deref);
        v.fields.iter().filter(|f| f.ty.inst == v.fields[k].ty.inst).count() >= 2
    });
    let not_first = s.variants.iter().any(|v| designated(v, Tr::Deref) > 0);
    let differs = has_mut && s.variants.iter().any(|v| designated(v, Tr::Deref) != designated(v, Tr::DerefMut));
    let mut classes = vec![];
    if multi_target {
        classes.push("several_fields_of_target_type".to_string());
    }
    if not_first {
        classes.push("marker_not_first".to_string());
    }
    if differs {
        classes.push("deref_mut_other_field".to_string());
    }
    if s.all_fields().any(|f| f.ty.refs > 0 && f.is_marker(Tr::Deref) || f.ty.refs > 0 && s.variants.iter().any(|v| v.fields.len() == 1)) {
        classes.push("reference_field".to_string());
    }
    if s.all_fields().any(|f| f.ty.src.contains(" mut ")) {
        classes.push("mutable_reference_field".to_string());
    }
    if s.all_fields().any(|f| f.ty.refs > 1) {
        classes.push("double_reference_field".to_string());
    }
    if !s.has(Tr::Deref) {
        classes.push("deref_mut_next_to_a_hand_written_deref".to_string());
    }
    if s.all_fields().any(|f| f.ty.src.starts_with("::core::") || f.ty.src.starts_with("::std::")) {
        classes.push("target_type_spelled_differently_in_a_later_variant".to_string());
    }
    Some(Rendered { observer: o, nontrivial: multi_target || not_first || differs, need_tallies: vec!["derefs"], classes })
}

pub fn run(ctx: &Ctx) -> i32 {
    crate::props::behave::run(ctx, &behaviour())
}

pub fn behaviour() -> Behaviour {
    Behaviour {
        prop: "C09",
        rule: "structs and enums (no unit variants) with 1..5 fields per variant, independent Deref and DerefMut marker positions, named and tuple shapes, \
               value and reference field types, several fields of the target type holding distinct values, later variants spelling the target type with other tokens (`::core::primitive::u8`); oracle: &*x has the address of the designated \
               field (of its referent for a reference field), &mut *x the address of the field marked DerefMut, and a write through it changes that field's \
               fingerprint and no other; non-trivial = >=2 fields of the target type in a variant, a marker not on position 0, or different Deref/DerefMut fields",
        salt: 0xC09,
        cfg,
        adjust,
        render,
        quick: 7000,
        thorough: 20000,
        batch: 25,
        assumptions: &[],
        miri_units: 0,
        extra: None,
    }
}
