//! C16 — expansion is deterministic (same input, same token stream; in one process and across processes).
use serde_json::json;

use crate::check::{self, Ctx, Failure, Report};
use crate::dna::Dna;
use crate::engine::{self, Expansion};
use crate::faults;
use crate::gen::{self, GenCfg};
use crate::spec::*;

thread_local! {
    static PARAM_NAMES: std::cell::RefCell<Option<Vec<String>>> = std::cell::RefCell::new(None);
}
pub static HARVESTED_PARAMS: std::sync::OnceLock<Vec<String>> = std::sync::OnceLock::new();

pub fn cfg(d: &mut Dna) -> GenCfg {
    let mut c = GenCfg::full();
    // generic parameters are partly named after identifiers the expansion itself uses (H, V, M, ..): state that
    // leaks from one expansion into the next usually hangs on such a name
    if let Some(p) = HARVESTED_PARAMS.get() {
        if !p.is_empty() {
            let mut names: Vec<String> = vec!["T".into(), "U".into(), "W".into()];
            names.extend(p.iter().cloned());
            c.typaram_names = Some(names.clone());
            c.const_names = Some(names);
        }
    }
    c.kinds = vec![Kind::Struct, Kind::Enum, Kind::Union];
    if d.chance(70) {
        c.must = vec![Tr::Into];
        c.kinds = vec![Kind::Struct, Kind::Enum];
        c.min_variants = 1;
    }
    c
}

/// (source, n_into_targets, n_faults)
pub fn request(dna: &[u16]) -> (String, usize, usize) {
    let mut d = Dna::new(dna);
    let c = cfg(&mut d);
    let b = gen::build(&mut d, &c);
    let mut spec = b.spec;
    // widen the Into target list: determinism of the *order of impls* is the interesting part
    if spec.has(Tr::Into) {
        let extra = d.pick(5);
        for k in 0..extra {
            let t = crate::types::INTO_TARGETS[(k * 3 + d.pick(8)) % 8];
            if !spec.into_targets().iter().any(|a| a.into_ty.as_deref() == Some(t)) {
                // designate by method on the first field of every variant so the request stays valid
                let m = crate::types::into_method(t);
                let mut ok = !spec.variants.is_empty();
                for v in spec.variants.iter_mut() {
                    if v.fields.is_empty() {
                        ok = false;
                        break;
                    }
                    v.fields[0].attrs.push(FAttr { tr: Tr::Into, into_ty: Some(t.to_string()), params: vec![(FParam::Method(m.to_string()), d.byte())], sp: 0 });
                }
                if ok {
                    spec.traits.push(TAttr { tr: Tr::Into, into_ty: Some(t.to_string()), params: vec![], sp: 0 });
                }
            }
        }
    }
    let _ = crate::props::c12::exotic_in_process(&mut spec, &mut d);
    let mut nf = 0;
    if d.chance(35) {
        // two independent faults: which diagnostic is reported first must not depend on map order
        for _ in 0..2 {
            let op = 1 + d.pick(faults::N_OPS);
            if faults::apply(op, &mut spec, &mut d).is_some() {
                nf += 1;
            }
        }
    }
    let nt = spec.into_targets().len();
    (spec.render_def_with("", true), nt, nf)
}

fn outcome_text(e: &Expansion) -> String {
    match e {
        Expansion::Ok(s) => format!("ok:{s}"),
        Expansion::Err(s) => format!("err:{s}"),
        Expansion::Panic(s) => format!("panic:{s}"),
        Expansion::Unparsable(s) => format!("unparsable:{s}"),
    }
}

const REPS: usize = 8;

/// returns Some(description) when two of REPS expansions differ
pub fn unstable(src: &str) -> Option<String> {
    let first = outcome_text(&engine::expand_src(src));
    for r in 1..REPS {
        let o = outcome_text(&engine::expand_src(src));
        if o != first {
            return Some(format!("repetition {r} differs from repetition 0:\n--- 0: {}\n--- {r}: {}", first.chars().take(700).collect::<String>(), o.chars().take(700).collect::<String>()));
        }
    }
    None
}

/// child mode: print `index hash` for every case so that the parent can compare processes
pub fn child(ctx: &Ctx, args: &[String]) -> i32 {
    {
        let (pool, _, _) = crate::props::c19::harvest(ctx.seed);
        let caps: Vec<String> = pool.into_iter().filter(|n| n.len() <= 2 && n.chars().next().map(|c| c.is_uppercase()).unwrap_or(false)).collect();
        let _ = HARVESTED_PARAMS.set(caps);
    }
    let n: usize = args.get(1).and_then(|s| s.parse().ok()).unwrap_or(100);
    let trees = check::draw(ctx.seed, 0xC16, n, 420);
    for (i, t) in trees.iter().enumerate() {
        let (src, _, _) = request(&t.current());
        println!("{} {:016x}", i, fnv64(&outcome_text(&engine::expand_src(&src))));
    }
    0
}

pub fn run(ctx: &Ctx) -> i32 {
    let mut rep = Report::new(
        ctx,
        "requests weighted towards 2..6 Into targets and invalid requests with two independent faults; each is expanded 8 times \
         in one process (every HashMap gets a fresh RandomState) and once in each of several freshly spawned processes; all outcomes \
         (token text or diagnostic text) must be identical, also between the dev-profile and a release-profile build of the macro (a panic in one build only counts as a difference; the lane adds ordered enums with C04's boundary discriminants) and between processes with different environments (emptied, other working directory, every variable the sources mention set to a panel of values); non-trivial = at least 2 Into targets or 2 faults; distinct by request hash",
    );
    rep.assumptions.push("detection is probabilistic: k order-sensitive items survive 8 repetitions with probability (1/k!)^7".into());
    let known = check::load_known();
    if let Some(p) = &ctx.replay {
        let Some(v) = check::read_replay(p) else { rep.inconclusive.push("unreadable replay file".into()); return rep.finish() };
        let src = v["source"].as_str().unwrap_or("").to_string();
        rep.evaluations = 1;
        // more repetitions on replay: the saved request is the unit of reproduction
        for _ in 0..8 {
            if let Some(m) = unstable(&src) {
                rep.violations.push(Failure { msg: m, dna: check::dna_of(&v), variant: "replay".into(), source: src.clone(), unit_body: None });
                break;
            }
        }
        return rep.finish();
    }
    {
        let (pool, _, _) = crate::props::c19::harvest(ctx.seed);
        let caps: Vec<String> = pool.into_iter().filter(|n| n.len() <= 2 && n.chars().next().map(|c| c.is_uppercase()).unwrap_or(false)).collect();
        let _ = HARVESTED_PARAMS.set(caps);
    }
    let n = ctx.scale(30000, 100000);
    let mut trees = check::draw(ctx.seed, 0xC16, n, 420);
    let open_f3 = known.iter().any(|k| k.property == "C16" && k.status == "open" && k.signature == "multiple_into_targets_hashmap_order");
    let mut my_hashes: Vec<u64> = Vec::with_capacity(n);
    let dnas: Vec<Vec<u16>> = trees.iter().map(|t| t.current()).collect();
    use rayon::prelude::*;
    let pre: Vec<((String, usize, usize), u64, Option<String>)> = dnas
        .par_iter()
        .map(|d| {
            let r = request(d);
            let h = fnv64(&outcome_text(&engine::expand_src(&r.0)));
            let u = unstable(&r.0);
            (r, h, u)
        })
        .collect();
    for (i, ((src, nt, nf), h0, unst)) in pre.into_iter().enumerate() {
        rep.evaluations += 1;
        rep.count("expansions", REPS as u64);
        rep.class(&format!("into_targets_{}", nt.min(6)));
        rep.class(&format!("faults_{nf}"));
        if nt >= 2 || nf >= 2 {
            rep.nontrivial.insert(fnv64(&src));
        }
        if i < 2 {
            rep.sample(json!(src));
        }
        my_hashes.push(h0);
        if let Some(_m) = unst {
            if open_f3 && nt >= 2 {
                let k = known.iter().find(|k| k.signature == "multiple_into_targets_hashmap_order").unwrap();
                rep.known(&k.id, &k.what);
                continue;
            }
            if rep.violations.len() >= 10 {
                rep.count("further_unstable_requests(not shrunk)", 1);
                continue;
            }
            let budget = if rep.violations.len() < 2 { 120 } else { 0 };
            let (best, steps) = check::shrink(&mut trees[i], budget, |d| {
                let (s, _, _) = request(d);
                unstable(&s).is_some() || unstable(&s).is_some()
            });
            rep.count("shrink_steps", steps as u64);
            let (s2, _, _) = request(&best);
            let m2 = unstable(&s2).or_else(|| unstable(&s2)).unwrap_or_else(|| "unstable (did not reproduce after shrinking)".into());
            rep.violations.push(Failure { msg: m2, dna: best, variant: "in-process".into(), source: s2, unit_body: None });
        }
    }
    // history independence: one thread expands the corpus forwards and then backwards; every request must come out as
    // in the (parallel, differently ordered) first pass, whatever was expanded before it
    {
        let srcs: Vec<String> = dnas.iter().take(ctx.scale(4000, 30000)).map(|d| request(d).0).collect();
        let fwd: Vec<u64> = srcs.iter().map(|s| fnv64(&outcome_text(&engine::expand_src(s)))).collect();
        let bwd: Vec<u64> = {
            let mut v: Vec<u64> = srcs.iter().rev().map(|s| fnv64(&outcome_text(&engine::expand_src(s)))).collect();
            v.reverse();
            v
        };
        let mut reported = 0;
        for i in 0..srcs.len() {
            rep.count("history_comparisons", 2);
            if fwd[i] != my_hashes[i] || bwd[i] != my_hashes[i] {
                let nt = request(&dnas[i]).1;
                if open_f3 && nt >= 2 {
                    continue;
                }
                if reported < 5 {
                    reported += 1;
                    // confirm against a pristine thread: the request alone, nothing before it
                    let s = srcs[i].clone();
                    let alone = std::thread::spawn(move || outcome_text(&engine::expand_src(&s))).join().unwrap_or_default();
                    let now = outcome_text(&engine::expand_src(&srcs[i]));
                    rep.violations.push(Failure {
                        msg: format!("the expansion depends on what was expanded before it in the same thread:\n--- alone in a fresh thread: {}\n--- after other requests:    {}", alone.chars().take(500).collect::<String>(), now.chars().take(500).collect::<String>()),
                        dna: dnas[i].clone(),
                        variant: "history".into(),
                        source: srcs[i].clone(),
                        unit_body: None,
                    });
                }
            }
        }
    }
    // across processes
    let procs = if ctx.thorough() { 32 } else { 6 };
    let per = if ctx.thorough() { n.min(2000) } else { n.min(600) };
    let exe = std::env::current_exe().unwrap();
    let outs: Vec<std::process::Output> = {
        let children: Vec<std::process::Child> = (0..procs)
            .map(|_| {
                std::process::Command::new(&exe)
                    .args(["C16-child", &per.to_string()])
                    .env("VERIF_SEED", ctx.seed.to_string())
                    .stdout(std::process::Stdio::piped())
                    .spawn()
                    .expect("spawn child")
            })
            .collect();
        children.into_iter().map(|c| c.wait_with_output().expect("child")).collect()
    };
    let mut cross = 0u64;
    let mut reported = 0;
    for (pi, o) in outs.iter().enumerate() {
        let text = String::from_utf8_lossy(&o.stdout);
        for line in text.lines() {
            let mut it = line.split(' ');
            let (Some(i), Some(h)) = (it.next().and_then(|s| s.parse::<usize>().ok()), it.next().and_then(|s| u64::from_str_radix(s, 16).ok())) else { continue };
            cross += 1;
            if i < my_hashes.len() && h != my_hashes[i] {
                let (src, nt, _) = request(&trees[i].current());
                if open_f3 && nt >= 2 {
                    let k = known.iter().find(|k| k.signature == "multiple_into_targets_hashmap_order").unwrap();
                    rep.known(&k.id, &k.what);
                    continue;
                }
                if reported < 5 {
                    reported += 1;
                    rep.violations.push(Failure {
                        msg: format!("process {pi} produced a different expansion than the parent process"),
                        dna: trees[i].current(),
                        variant: "cross-process".into(),
                        source: src,
                        unit_body: None,
                    });
                }
            }
        }
    }
    rep.count("cross_process_comparisons", cross);
    rep.count("processes", procs as u64);
    // across environments: "nothing but the input tokens and the enabled features" excludes the process environment.
    // Fresh processes run with an emptied environment, from another directory, and with every variable the sources
    // mention (plus cargo's usual ones) set to a panel of values
    {
        let names = env_names();
        rep.extra.insert("environment_variables_varied".into(), json!(names));
        let panel = ["", "0", "1", "true", "1.60", "1.93", "1.95.0", "release", "x86_64-unknown-linux-gnu", "/nonexistent", "\u{e9}"];
        // one emptied environment plus one process per panel value: every variable takes every value once
        let nenv = 1 + panel.len() * if ctx.thorough() { 2 } else { 1 };
        let per_env = if ctx.thorough() { n.min(2000) } else { n.min(600) };
        let children: Vec<std::process::Child> = (0..nenv)
            .map(|k| {
                let mut c = std::process::Command::new(&exe);
                c.args(["C16-child", &per_env.to_string()]).stdout(std::process::Stdio::piped());
                if k == 0 {
                    c.env_clear();
                } else {
                    for (j, name) in names.iter().enumerate() {
                        c.env(name, panel[(k + j) % panel.len()]);
                    }
                }
                if k % 2 == 1 {
                    c.current_dir("/");
                }
                c.env("VERIF_SEED", ctx.seed.to_string());
                c.spawn().expect("spawn child")
            })
            .collect();
        let outs: Vec<std::process::Output> = children.into_iter().map(|c| c.wait_with_output().expect("child")).collect();
        let mut reported = 0;
        let mut compared = 0u64;
        for (k, o) in outs.iter().enumerate() {
            let text = String::from_utf8_lossy(&o.stdout);
            for line in text.lines() {
                let mut it = line.split(' ');
                let (Some(i), Some(h)) = (it.next().and_then(|s| s.parse::<usize>().ok()), it.next().and_then(|s| u64::from_str_radix(s, 16).ok())) else { continue };
                compared += 1;
                if i < my_hashes.len() && h != my_hashes[i] && reported < 5 {
                    reported += 1;
                    let (src, _, _) = request(&trees[i].current());
                    rep.violations.push(Failure {
                        msg: format!("a process with a different environment (variant {k}: {}) produced a different expansion", if k == 0 { "emptied".to_string() } else { format!("{} variables set from the panel", names.len()) }),
                        dna: trees[i].current(),
                        variant: "cross-environment".into(),
                        source: src,
                        unit_body: None,
                    });
                }
            }
        }
        rep.count("cross_environment_comparisons", compared);
        if compared == 0 {
            rep.inconclusive.push("the environment lane produced no comparison".into());
        }
    }
    // across builds: the same sources compiled with the release profile (no debug assertions, no overflow checks, full
    // optimisation) must expand every request to the same tokens / the same diagnostic as this (dev profile) build
    {
        let mut srcs: Vec<String> = dnas.iter().take(ctx.scale(4000, 30000)).map(|d| request(d).0).collect();
        // ordered enums with #[repr] and explicit discriminants, numeric edge cases of ranks: where integer handling lives
        let mut c2 = GenCfg::full();
        c2.kinds = vec![Kind::Enum, Kind::Struct];
        c2.must = vec![Tr::Ord];
        c2.repr_pct = 70;
        c2.disc_pct = 70;
        c2.attr_pct = 60;
        for t in check::draw(ctx.seed, 0xC16B, ctx.scale(2000, 10000), 420) {
            let dna = t.current();
            let mut d = Dna::new(&dna);
            let mut spec = gen::build(&mut d, &c2).spec;
            // C04's discriminant stress (every repr, values at the edges of its range, 2^127-shifted u128 prefixes)
            if spec.kind == Kind::Enum {
                crate::props::c04::adjust(&mut spec, &mut d);
            }
            srcs.push(spec.render_def_with("", true));
        }
        match release_driver() {
            Err(e) => rep.inconclusive.push(e),
            Ok(exe) => match drive(&exe, &srcs) {
                Err(e) => rep.inconclusive.push(e),
                Ok(lines) => {
                    let mine: Vec<Expansion> = srcs.par_iter().map(|s| engine::expand_src(s)).collect();
                    let mut reported = 0;
                    for (i, (m, l)) in mine.iter().zip(lines.iter()).enumerate() {
                        rep.count("cross_build_comparisons", 1);
                        let same = match m {
                            Expansion::Ok(t) => *l == format!("ok {:016x}", fnv64(t)),
                            Expansion::Err(msg) => l.strip_prefix("err ").map(|x| msg.replace('\n', "\\n").starts_with(x)).unwrap_or(false),
                            // a panic in both builds is C17's subject; a panic in one of them only (an overflow check, a debug
                            // assertion) is a difference between builds
                            Expansion::Panic(_) => l == "panic",
                            Expansion::Unparsable(_) => l.starts_with("unparsable") || l.starts_with("err "),
                        };
                        if !same && reported < 5 {
                            reported += 1;
                            rep.violations.push(Failure {
                                msg: format!("the release build of the macro expands this request differently than the dev build: dev = {}, release = {}", outcome_text(m).chars().take(300).collect::<String>(), l.chars().take(300).collect::<String>()),
                                dna: vec![],
                                variant: "cross-build".into(),
                                source: srcs[i].clone(),
                                unit_body: None,
                            });
                        }
                    }
                },
            },
        }
    }
    // across positions: the same refused request at two places of one source file, through the real compiler (whose spans
    // are byte positions; the in-process token printer has none). The diagnostics must be word for word the same
    {
        let so = engine::build_proc_macro();
        match so {
            Err(e) => rep.inconclusive.push(e.0),
            Ok(so) => {
                let k = ctx.scale(160, 1200);
                let mut reqs: Vec<String> = Vec::new();
                for dna in check::draw_values(ctx.seed, 0xC16D, k * 3, 420) {
                    if reqs.len() >= k {
                        break;
                    }
                    let mut d = Dna::new(&dna);
                    let op = 1 + d.pick(faults::N_OPS);
                    let cfg = faults::cfg_for(op, &mut d);
                    let mut spec = gen::build(&mut d, &cfg).spec;
                    if faults::apply(op, &mut spec, &mut d).is_some() {
                        reqs.push(spec.render_def());
                    }
                }
                let dir = engine::work_dir("C16-pos");
                let results: Vec<(usize, Option<String>)> = reqs
                    .par_iter()
                    .enumerate()
                    .map(|(i, def)| {
                        let pad = "// padding that moves every byte position of the second copy\n".repeat(1 + i % 7);
                        let src = format!("#![allow(warnings)]\nmod prelude {{}}\nmod a {{\nuse educe::Educe;\n{def}}}\n{pad}mod b {{\nuse educe::Educe;\n{def}}}\nfn main() {{}}\n");
                        let split = src.find("mod b {").map(|p| src[..p].lines().count()).unwrap_or(0);
                        let p = dir.join(format!("p{i}.rs"));
                        std::fs::write(&p, &src).unwrap();
                        let r = engine::rustc_compile(&p, &dir.join(format!("p{i}")), &so, &["--emit=metadata"]);
                        let _ = std::fs::remove_file(&p);
                        if r.crashed.is_some() {
                            return (i, None);
                        }
                        let mut a: Vec<&str> = r.diags.iter().filter(|d| d.level == "error" && d.line > 0 && d.line <= split).map(|d| d.message.as_str()).collect();
                        let mut b: Vec<&str> = r.diags.iter().filter(|d| d.level == "error" && d.line > split).map(|d| d.message.as_str()).collect();
                        a.sort();
                        b.sort();
                        if a != b {
                            let only_a: Vec<&&str> = a.iter().filter(|m| !b.contains(m)).collect();
                            let only_b: Vec<&&str> = b.iter().filter(|m| !a.contains(m)).collect();
                            (i, Some(format!("first copy only: {:?} / second copy only: {:?}", only_a, only_b)))
                        } else {
                            (i, Some(String::new()))
                        }
                    })
                    .collect();
                let mut reported = 0;
                for (i, r) in results {
                    match r {
                        None => rep.inconclusive.push("rustc crashed in the position lane".into()),
                        Some(m) if m.is_empty() => rep.count("cross_position_comparisons", 1),
                        Some(m) => {
                            rep.count("cross_position_comparisons", 1);
                            if reported < 5 {
                                reported += 1;
                                rep.violations.push(Failure {
                                    msg: format!("the same refused request gets different diagnostics at different places of one file: {}", m.chars().take(500).collect::<String>()),
                                    dna: vec![],
                                    variant: "cross-position".into(),
                                    source: reqs[i].clone(),
                                    unit_body: None,
                                });
                            }
                        },
                    }
                }
                check::clean_work("C16-pos");
            },
        }
    }
    // across parsers: syn's `full` feature is unified over the user's whole build graph, so the same educe with the same
    // educe features meets a syn that parses `{ .. }`, tuples, arrays as Expr::Block/Tuple/Array in one build and as
    // Expr::Verbatim in another. Whatever both builds accept must expand to the same tokens
    {
        let mut c3 = GenCfg::full();
        c3.must = vec![Tr::Default];
        c3.attr_pct = 70;
        let mut srcs: Vec<String> = dnas.iter().take(ctx.scale(3000, 20000)).map(|d| request(d).0).collect();
        let mut wrapped = 0u64;
        for t in check::draw(ctx.seed, 0xC16F, ctx.scale(3000, 12000), 420) {
            let dna = t.current();
            let mut d = Dna::new(&dna);
            let mut spec = gen::build(&mut d, &c3).spec;
            // expressions in the syntax that only a full syn gives a shape to
            let wrap = |e: &str, d: &mut Dna| -> String {
                match d.pick(4) {
                    0 => format!("{{ {e} }}"),
                    1 => format!("({e}, 0u8).0"),
                    2 => format!("[{e}][0]"),
                    _ => format!("{{ {{ {e} }} }}"),
                }
            };
            for a in spec.traits.iter_mut() {
                for (p, _) in a.params.iter_mut() {
                    if let TParam::Expr(e) = p {
                        if d.chance(60) {
                            *e = wrap(e, &mut d);
                            wrapped += 1;
                        }
                    }
                }
            }
            for v in spec.variants.iter_mut() {
                for f in v.fields.iter_mut() {
                    for a in f.attrs.iter_mut() {
                        for (p, _) in a.params.iter_mut() {
                            if let FParam::Expr(e) = p {
                                if d.chance(40) {
                                    *e = wrap(e, &mut d);
                                    wrapped += 1;
                                }
                            }
                        }
                    }
                }
            }
            srcs.push(spec.render_def_with("", true));
        }
        rep.count("expressions_in_full_only_syntax", wrapped);
        match driver("/verif/target/feat-full", false, &["full"]) {
            Err(e) => rep.inconclusive.push(e),
            Ok(exe) => match drive_with(&exe, &srcs, true) {
                Err(e) => rep.inconclusive.push(e),
                Ok(lines) => {
                    let mine: Vec<Expansion> = srcs.par_iter().map(|s| engine::expand_src(s)).collect();
                    let mut reported = 0;
                    for (i, (m, l)) in mine.iter().zip(lines.iter()).enumerate() {
                        rep.count("cross_parser_comparisons", 1);
                        let same = match m {
                            // compared without regard to the spacing of punctuation: a parser that gives `&&x` a shape re-emits
                            // it as `& & x`, which is the same token sequence for the compiler
                            Expansion::Ok(t) => flat_hash(t).map(|h| *l == format!("ok {h:016x}")).unwrap_or(false),
                            // syntax that only the full parser accepts is the documented purpose of the feature
                            Expansion::Err(msg) if msg.contains("unsupported expression") || msg.contains("features=[\"full\"]") => {
                                rep.count("accepted_only_with_syn_full", 1);
                                true
                            },
                            Expansion::Err(msg) => l.strip_prefix("err ").map(|x| msg.replace('\n', "\\n").starts_with(x)).unwrap_or(false),
                            Expansion::Panic(_) => l == "panic",
                            Expansion::Unparsable(_) => l.starts_with("unparsable") || l.starts_with("err "),
                        };
                        if !same && reported < 5 {
                            reported += 1;
                            rep.violations.push(Failure {
                                msg: format!("a build in which syn's `full` feature is on expands this request differently: without = {}, with = {}", outcome_text(m).chars().take(300).collect::<String>(), l.chars().take(300).collect::<String>()),
                                dna: vec![],
                                variant: "cross-parser".into(),
                                source: srcs[i].clone(),
                                unit_body: None,
                            });
                        }
                    }
                },
            },
        }
    }
    rep.finish()
}

/// the in-process driver with all trait features, built with the release profile
fn release_driver() -> Result<std::path::PathBuf, String> {
    driver("/verif/target/feat-rel", true, &[])
}

fn driver(dir: &str, release: bool, extra: &[&str]) -> Result<std::path::PathBuf, String> {
    let mut names: Vec<&str> = ALL_TRAITS.iter().map(|t| t.name()).collect();
    names.extend(extra.iter().copied());
    let feats = names.join(",");
    let mut args = vec!["build", "--offline", "--quiet"];
    if release {
        args.push("--release");
    }
    args.extend(["-p", "featdrv", "--no-default-features", "--features", &feats, "--target-dir", dir]);
    let out = std::process::Command::new("cargo")
        .args(&args)
        .current_dir("/verif/harness")
        .env("CARGO_NET_OFFLINE", "true")
        .output()
        .map_err(|e| format!("cannot run cargo: {e}"))?;
    if !out.status.success() {
        return Err(format!("the release-profile driver does not build: {}", String::from_utf8_lossy(&out.stderr).lines().filter(|l| l.contains("error")).take(5).collect::<Vec<_>>().join(" | ")));
    }
    Ok(std::path::Path::new(dir).join(if release { "release" } else { "debug" }).join("featdrv"))
}

/// one answer line per request (`ok <hash>` / `err <message>` / `panic` / `unparsable ..`)
fn drive(exe: &std::path::Path, srcs: &[String]) -> Result<Vec<String>, String> {
    drive_with(exe, srcs, false)
}

/// the same flattening as featdrv's `flat`: every punctuation character is a token of its own
fn flat(ts: proc_macro2::TokenStream, out: &mut String) {
    for tt in ts {
        match tt {
            proc_macro2::TokenTree::Group(g) => {
                let (o, c) = match g.delimiter() {
                    proc_macro2::Delimiter::Parenthesis => ("(", ")"),
                    proc_macro2::Delimiter::Brace => ("{", "}"),
                    proc_macro2::Delimiter::Bracket => ("[", "]"),
                    proc_macro2::Delimiter::None => ("", ""),
                };
                out.push_str(o);
                out.push(' ');
                flat(g.stream(), out);
                out.push_str(c);
                out.push(' ');
            },
            proc_macro2::TokenTree::Punct(p) => {
                out.push(p.as_char());
                out.push(' ');
            },
            other => {
                out.push_str(&other.to_string());
                out.push(' ');
            },
        }
    }
}

fn flat_hash(text: &str) -> Option<u64> {
    let ts: proc_macro2::TokenStream = text.parse().ok()?;
    let mut s = String::new();
    flat(ts, &mut s);
    Some(fnv64(&s))
}

fn drive_with(exe: &std::path::Path, srcs: &[String], flat_hashes: bool) -> Result<Vec<String>, String> {
    use std::io::Write;
    let mut cmd = std::process::Command::new(exe);
    if flat_hashes {
        cmd.env("VERIF_FEATDRV_FLAT", "1");
    }
    let mut child = cmd.stdin(std::process::Stdio::piped()).stdout(std::process::Stdio::piped()).spawn().map_err(|e| format!("spawn featdrv: {e}"))?;
    {
        let mut stdin = child.stdin.take().unwrap();
        let payload: String = srcs.iter().map(|s| format!("{}\n", s.replace('\\', "\\\\").replace('\n', "\\n"))).collect();
        std::thread::spawn(move || {
            let _ = stdin.write_all(payload.as_bytes());
        });
    }
    let o = child.wait_with_output().map_err(|e| format!("featdrv: {e}"))?;
    let lines: Vec<String> = String::from_utf8_lossy(&o.stdout).lines().map(|l| l.to_string()).collect();
    if lines.len() != srcs.len() {
        return Err(format!("the release-profile driver answered {} of {} requests (it may have crashed: {:?})", lines.len(), srcs.len(), o.status));
    }
    Ok(lines)
}

/// names of environment variables worth varying: everything the subject's sources mention in `var("..")`, `var_os("..")`,
/// `env!("..")`, `option_env!("..")`, plus what cargo and rustc usually export to build scripts and proc macros
fn env_names() -> Vec<String> {
    let mut names: std::collections::BTreeSet<String> = [
        "CARGO_PKG_NAME", "CARGO_PKG_VERSION", "CARGO_PKG_RUST_VERSION", "CARGO_PKG_AUTHORS", "CARGO_MANIFEST_DIR", "CARGO_CRATE_NAME", "CARGO_PRIMARY_PACKAGE",
        "CARGO", "CARGO_HOME", "OUT_DIR", "PROFILE", "DEBUG", "OPT_LEVEL", "TARGET", "HOST", "RUSTC", "RUSTC_WRAPPER", "RUSTFLAGS", "RUST_BACKTRACE", "RUST_LOG",
        "RUST_MIN_STACK", "LANG", "LC_ALL", "TZ", "HOME", "USER", "PWD", "TERM", "NO_COLOR", "CI", "DOCS_RS", "SOURCE_DATE_EPOCH",
    ]
    .iter()
    .map(|s| s.to_string())
    .collect();
    fn walk(dir: &std::path::Path, out: &mut std::collections::BTreeSet<String>) {
        let Ok(rd) = std::fs::read_dir(dir) else { return };
        for e in rd.flatten() {
            let p = e.path();
            if p.is_dir() {
                walk(&p, out);
            } else if p.extension().map(|x| x == "rs").unwrap_or(false) {
                let Ok(text) = std::fs::read_to_string(&p) else { continue };
                for key in ["var(\"", "var_os(\"", "env!(\"", "option_env!(\"", "var(\n", "var_os(\n"] {
                    let mut rest = text.as_str();
                    while let Some(i) = rest.find(key) {
                        let after = &rest[i + key.len()..];
                        let after = after.trim_start().trim_start_matches('"');
                        let name: String = after.chars().take_while(|c| c.is_ascii_alphanumeric() || *c == '_').collect();
                        if !name.is_empty() && name.chars().next().map(|c| c.is_ascii_uppercase()).unwrap_or(false) {
                            out.insert(name);
                        }
                        rest = &rest[i + key.len()..];
                    }
                }
            }
        }
    }
    walk(std::path::Path::new(engine::REPO).join("src").as_path(), &mut names);
    names.into_iter().collect()
}
