//! C05 — Hash input is a function of the variant and non-ignored fields only.
use crate::check::Ctx;
use crate::dna::Dna;
use crate::gen::GenCfg;
use crate::props::behave::*;
use crate::spec::*;

fn cfg(d: &mut Dna) -> GenCfg {
    let mut c = GenCfg::behaviour(&[Tr::Hash], &[Tr::PartialEq, Tr::Eq, Tr::Debug, Tr::Clone]);
    c.trait_pct = 25;
    c.attr_pct = 45;
    c.max_variants = 4;
    // the variant part of the hash input must tell variants apart whatever discriminants they declare
    c.disc_pct = if d.chance(40) { 90 } else { 30 };
    c
}

/// enums with more variants than a byte can count: the variant part of the input must still tell all of them apart.
/// The first variant's shape is repeated at positions 256 and 512, everything else is a unit variant
fn adjust(s: &mut TypeSpec, d: &mut Dna) -> bool {
    if s.kind != Kind::Enum || !s.gens.is_empty() || s.variants.is_empty() || !d.chance(3) {
        return true;
    }
    let n = [257usize, 258, 300, 513][d.pick(4)];
    let first = s.variants[0].clone();
    s.variants.clear();
    for i in 0..n {
        let mut v = if i % 256 == 0 {
            first.clone()
        } else {
            VariantSpec { name: String::new(), shape: Shape::Unit, fields: vec![], disc: None, attrs: vec![], split: 0, raw: vec![], noise: vec![], disc_sp: 0 }
        };
        v.name = format!("U{i}");
        v.disc = None;
        s.variants.push(v);
    }
    if let Some(r) = s.repr.clone() {
        if r.contains("u8") || r.contains("i8") {
            s.repr = None;
        }
    }
    true
}

pub fn render(s: &TypeSpec) -> Option<Rendered> {
    if s.variants.is_empty() {
        return None;
    }
    let ty = s.inst_ty();
    let mut o = String::new();
    o.push_str("type Calls = ::std::vec::Vec<(&'static str, ::std::vec::Vec<u8>)>;\n");
    // per-field recorded sequences of the non-ignored fields, in declaration order
    o.push_str(&format!("pub fn field_seqs(a: &{ty}) -> ::std::vec::Vec<Calls> {{\n    let b = a;\n"));
    o.push_str(&match_same_variant(
        s,
        |vi| {
            let v = &s.variants[vi];
            let mut code = touch_all(v);
            code.push_str("let mut out: ::std::vec::Vec<Calls> = ::std::vec::Vec::new(); ");
            for (i, f) in v.fields.iter().enumerate() {
                if f.ignored(Tr::Hash) {
                    continue;
                }
                match f.method(Tr::Hash) {
                    Some(m) => code.push_str(&format!("out.push(rec_with(|h| {m}(a{i}, h))); ")),
                    None => code.push_str(&format!("out.push(rec(a{i})); ")),
                }
            }
            code.push_str("out");
            code
        },
        "unreachable!()",
    ));
    o.push_str("}\n");
    // PartialEq consistency only when both traits are configured alike
    let consistent = s.has(Tr::PartialEq)
        && s.all_fields().all(|f| f.ignored(Tr::Hash) == f.ignored(Tr::PartialEq) && f.method(Tr::Hash).is_none() && f.method(Tr::PartialEq).is_none())
        && !s.all_fields().any(|f| f.ty.inst.contains("f32"));
    o.push_str("pub fn run(o: &mut Out) {\n    let xs = vals();\n");
    o.push_str("    let seqs: ::std::vec::Vec<Calls> = xs.iter().map(|x| rec(x)).collect();\n");
    o.push_str("    let fss: ::std::vec::Vec<::std::vec::Vec<Calls>> = xs.iter().map(|x| field_seqs(x)).collect();\n");
    o.push_str("    let mut prefixes: ::std::vec::Vec<(usize, Calls)> = ::std::vec::Vec::new();\n");
    o.push_str("    for (i, x) in xs.iter().enumerate() {\n");
    o.push_str("        let flat: Calls = fss[i].iter().flatten().cloned().collect();\n");
    o.push_str("        let seq = &seqs[i];\n");
    o.push_str("        let ok = seq.len() >= flat.len() && seq[seq.len() - flat.len()..] == flat[..];\n");
    o.push_str("        o.check(ok, || format!(\"value {i}: hasher calls {:?} do not end with the fields' own sequences {:?}\", seq, flat));\n");
    o.push_str("        if ok { prefixes.push((variant_of(x), seq[..seq.len() - flat.len()].to_vec())); }\n");
    o.push_str("        // a second hasher sees the same stream\n");
    o.push_str("        o.check(fnv(x) == fnv(x), || \"hashing twice differs\".to_string());\n");
    o.push_str("    }\n");
    o.push_str("    for (i, (vi, pi)) in prefixes.iter().enumerate() {\n        for (j, (vj, pj)) in prefixes.iter().enumerate() {\n");
    o.push_str("            if vi == vj { o.check(pi == pj, || format!(\"values {i},{j} of one variant feed different variant data {:?} vs {:?}\", pi, pj)); }\n");
    o.push_str("            else { o.check(pi != pj, || format!(\"variants {vi} and {vj} feed the same variant data {:?}\", pi)); o.tally(\"cross_variant\", 1); }\n");
    o.push_str("        }\n    }\n");
    o.push_str("    for i in 0..xs.len() {\n        for j in 0..xs.len() {\n");
    o.push_str("            let agree = variant_of(&xs[i]) == variant_of(&xs[j]) && fss[i] == fss[j];\n");
    o.push_str("            o.check((seqs[i] == seqs[j]) == agree, || format!(\"values {i},{j}: agree on variant and non-ignored fields = {agree}, but identical hasher input = {}\", seqs[i] == seqs[j]));\n");
    o.push_str("            if agree { o.tally(\"agree\", 1); } else { o.tally(\"differ\", 1); }\n");
    o.push_str("            if agree && i != j { o.tally(\"agree_distinct_values\", 1); }\n");
    if consistent {
        o.push_str("            if xs[i] == xs[j] { o.check(seqs[i] == seqs[j] && fnv(&xs[i]) == fnv(&xs[j]), || format!(\"values {i} == {j} but their hashes differ\")); o.tally(\"eq_implies_hash\", 1); }\n");
    }
    o.push_str("        }\n    }\n}\n");
    let ignored = s.all_fields().any(|f| f.ignored(Tr::Hash) && f.ty.vals.len() > 1);
    let multi_with_unit = s.variants.len() >= 2 && s.variants.iter().any(|v| v.shape == Shape::Unit);
    let mut classes = vec![];
    if ignored {
        classes.push("ignored_field_varies".to_string());
    }
    if multi_with_unit {
        classes.push("multi_variant_with_unit".to_string());
    }
    if s.all_fields().any(|f| f.method(Tr::Hash).is_some()) {
        classes.push("hash_method".to_string());
    }
    if consistent {
        classes.push("eq_consistency_checked".to_string());
    }
    if s.variants.len() > 256 {
        classes.push("more_than_256_variants".to_string());
    }
    Some(Rendered { observer: o, nontrivial: ignored || multi_with_unit, need_tallies: vec!["differ"], classes })
}

pub fn run(ctx: &Ctx) -> i32 {
    crate::props::behave::run(ctx, &behaviour())
}

pub fn behaviour() -> Behaviour {
    Behaviour {
        prop: "C05",
        rule: "structs and enums with Hash educed and per-field ignore/method; observed through a recording Hasher (every write_* call with its bytes): \
               the call sequence must end with the concatenation, in declaration order, of each non-ignored field's own sequence (own Hash or custom \
               method), the remaining prefix must be equal within a variant and pairwise different between variants, and two values feed identical \
               data iff they agree on variant and non-ignored fields; a == b implies equal hashes when PartialEq is configured alike; non-trivial = \
               an ignored field whose value varies or >=2 variants including a unit one, with differing pairs observed; 3% of the enums have 257..513 variants \
               (the first variant's shape repeated at positions 256 and 512)",
        salt: 0xC05,
        cfg,
        adjust,
        render,
        quick: 7000,
        thorough: 20000,
        batch: 25,
        assumptions: &["what the variant prefix looks like is not fixed by the statement and not by the oracle"],
        miri_units: 0,
        extra: None,
    }
}
