//! C04 — enum variants order by declared discriminant, never by memory layout.
use crate::check::Ctx;
use crate::dna::Dna;
use crate::gen::GenCfg;
use crate::props::behave::*;
use crate::props::c03::render_field_oracle;
use crate::spec::*;
use crate::types::niche_types;

fn cfg(d: &mut Dna) -> GenCfg {
    let must: Vec<Tr> = match d.pick(3) {
        0 => vec![Tr::PartialOrd],
        1 => vec![Tr::Ord],
        _ => vec![Tr::PartialOrd, Tr::Ord],
    };
    let mut c = GenCfg::behaviour(&must, &[Tr::PartialEq, Tr::Eq, Tr::Clone, Tr::Copy, Tr::Hash, Tr::Debug]);
    c.kinds = vec![Kind::Enum];
    c.trait_pct = 10;
    c.attr_pct = 25;
    c.max_variants = 5;
    c.min_variants = 1;
    c.max_fields = 3;
    c.reprs = true;
    c.discriminants = true;
    c.extra_types = niche_types();
    c
}

/// special shapes: very many unit variants (tag width boundaries)
pub fn adjust(s: &mut TypeSpec, d: &mut Dna) -> bool {
    // C-like enums are what most ordered enums in the wild look like: make every sixth enum field-less
    if s.kind == Kind::Enum && s.variants.len() >= 2 && s.gens.is_empty() && d.chance(20) {
        for v in s.variants.iter_mut() {
            v.shape = Shape::Unit;
            v.fields.clear();
            // (a unit variant cannot switch its shown name off)
            v.attrs.retain(|a| a.tr != Tr::Debug);
        }
        // (`repr(C, u8)` is only legal on enums with fields)
        if s.repr.as_deref().map(|r| r.contains("C, u8") || r.contains("u8, C")).unwrap_or(false) {
            s.repr = None;
        }
    }
    if d.chance(8) && s.gens.is_empty() {
        let n = [127usize, 128, 129, 255, 256, 257][d.pick(6)];
        let first = s.variants.first().cloned();
        s.variants.clear();
        // keep one payload variant at a random position so that the enum is not fieldless half of the time
        let keep_payload = d.chance(50);
        let pos = d.pick(n);
        for i in 0..n {
            let mut v = VariantSpec { name: format!("U{i}"), shape: Shape::Unit, fields: vec![], disc: None, attrs: vec![], split: 0, raw: vec![], noise: vec![], disc_sp: 0 };
            if keep_payload && i == pos {
                if let Some(f) = &first {
                    v = f.clone();
                    v.name = format!("U{i}");
                    v.disc = None;
                }
            }
            s.variants.push(v);
        }
        // a repr that cannot hold the variant count would be rejected by rustc
        if let Some(r) = s.repr.clone() {
            if (r.contains("u8") && n > 256) || (r.contains("i8") && n > 128) || r.contains("C, u8") || r.contains("u8, C") {
                s.repr = None;
            }
        }
        for v in s.variants.iter_mut() {
            v.disc = None;
        }
    }
    // discriminant stress: every primitive repr with explicit discriminants at and around the edges of its range,
    // negative ones for the signed types, in any order
    if s.variants.len() >= 2 && s.variants.len() <= 8 && d.chance(30) {
        let tys = ["i8", "i16", "i32", "i64", "i128", "isize", "u8", "u16", "u32", "u64", "u128", "usize"];
        let r = tys[d.pick(tys.len())];
        let (lo, hi) = crate::gen::int_range(r);
        let has_fields = s.variants.iter().any(|v| v.shape != Shape::Unit);
        let with_c = has_fields && d.chance(20);
        // a field-less enum may also be `repr(C)` alone: its tag is then C's `int` or `unsigned int`, whichever holds all values
        let c_alone = !has_fields && d.chance(20);
        let c_unsigned = c_alone && d.chance(50);
        s.repr = Some(if c_alone { "C".to_string() } else if with_c { format!("C, {r}") } else { r.to_string() });
        // `repr(C, ..)` enums with discriminants beyond C's int draw a future-compatibility warning about the definition itself
        let (lo, hi) = if c_unsigned {
            (0, u32::MAX as i128)
        } else if c_alone {
            (i32::MIN as i128, i32::MAX as i128)
        } else if with_c {
            (lo.max(i32::MIN as i128), hi.min(i32::MAX as i128))
        } else {
            (lo, hi)
        };
        // an alignment request next to the integer type (in the same attribute or in one of its own, see the renderer)
        if !c_alone && !with_c && d.chance(if r == "u128" { 60 } else { 20 }) {
            let al = ["align(16)", "align(2)", "align(64)"][d.pick(3)];
            s.repr = Some(if d.chance(if r == "u128" { 80 } else { 50 }) { format!("{r}, {al}") } else { format!("{al}, {r}") });
            // mostly in attributes of their own: a reader that handles one #[repr] at a time must remember the integer type
            if d.chance(70) {
                s.split |= 0x40;
            }
        }
        let r = if c_alone { "C" } else { r };
        let nv = s.variants.len() as i128;
        let mut cands: Vec<i128> = vec![lo, lo + 1, lo + nv, 2147483647, 2147483648, 2147483649, 4294967290, -129, -128, -127, -5, -2, -1, 0, 1, 2, 100, 126, 127, 128, 255, 256, 32767, 65535, hi - nv - 1, hi - nv, hi / 2];
        cands.retain(|c| *c >= lo && *c <= hi - nv);
        for v in s.variants.iter_mut() {
            v.disc = if d.chance(65) { Some(*d.choose(&cands)) } else { None };
        }
        // validate with the language's rule; drop the explicit values if they collide or overflow
        let ds = s.discriminants();
        let mut seen = std::collections::BTreeSet::new();
        let ok = ds.iter().all(|x| *x >= lo && *x <= hi && seen.insert(*x));
        if !ok {
            for v in s.variants.iter_mut() {
                v.disc = None;
            }
        }
        // the upper half of u128: the discriminants of a prefix of the variants (often all of them) are written 2^127
        // higher than the model's value; the first variant and the first variant after the prefix are explicit so that no
        // implicit discriminant continues across the boundary
        // field-less enums are what people make Copy: the order must not depend on that (nor take a short cut through `as isize`)
        if !has_fields && !s.has(Tr::Copy) && matches!(r, "u64" | "usize" | "u128" | "i128" | "i64") && d.chance(40) {
            s.traits.push(TAttr::flag(Tr::Copy));
            // ... with values on both sides of the isize range: the first variants count from 0, the last one sits at the top
            if ok && matches!(r, "u64" | "usize" | "u128" | "i128") && d.chance(60) {
                for v in s.variants.iter_mut() {
                    v.disc = None;
                }
                let last = s.variants.len() - 1;
                s.variants[last].disc = Some(hi - 1);
            }
        }
        let aligned = s.repr.as_deref().map(|x| x.contains("align")).unwrap_or(false);
        if ok && r == "u128" && !with_c && d.chance(if aligned { 90 } else { 50 }) && ds.iter().all(|x| *x >= 0 && *x < (1i128 << 126)) {
            if s.variants[0].disc.is_none() {
                s.variants[0].disc = Some(ds[0]);
            }
            let n = s.variants.len();
            let k = if d.chance(50) { n } else { 1 + d.pick(n - 1) };
            if k < n && s.variants[k].disc.is_none() {
                s.variants[k].disc = Some(ds[k]);
            }
            s.disc_shift = k;
        }
    }
    true
}

pub fn render(s: &TypeSpec) -> Option<Rendered> {
    if s.variants.is_empty() {
        return None;
    }
    let ty = s.inst_ty();
    let has_ord = s.has(Tr::Ord);
    let has_pord = s.has(Tr::PartialOrd);
    let discs = s.discriminants();
    // a `#[repr(u128)]` enum is modelled in u128 (its discriminants may lie above i128::MAX), everything else in i128
    let wide = crate::spec::repr_int(s.repr.as_deref()) == Some("u128");
    let discs_u = s.discriminants_u128();
    let dty = if wide { "u128" } else { "i128" };
    let mut o = render_field_oracle(s, has_ord);
    o.push_str(&format!("pub fn disc(x: &{ty}) -> {dty} {{\n    match x {{\n"));
    for (vi, v) in s.variants.iter().enumerate() {
        let pat = match v.shape {
            Shape::Unit => format!("{}::{}", s.name, v.name),
            Shape::Named => format!("{}::{} {{ .. }}", s.name, v.name),
            Shape::Tuple => format!("{}::{}(..)", s.name, v.name),
        };
        if wide {
            o.push_str(&format!("        {pat} => {}u128,\n", discs_u[vi]));
        } else {
            o.push_str(&format!("        {pat} => {}i128,\n", discs[vi]));
        }
    }
    o.push_str("    }\n}\n");
    o.push_str(&format!("#[repr(C)] pub struct Cell {{ pub head: u8, pub v: {ty}, pub tail: [u8; 16] }}\n"));
    o.push_str("pub fn expected(a: &");
    o.push_str(&ty);
    o.push_str(", b: &");
    o.push_str(&ty);
    o.push_str(") -> ::core::option::Option<::core::cmp::Ordering> {\n    match oracle_fields(a, b) { Some(r) => r, None => Some(disc(a).cmp(&disc(b))) }\n}\n");
    let cmp_expr = |a: &str, b: &str| -> String {
        if has_ord {
            format!("Some(::core::cmp::Ord::cmp({a}, {b}))")
        } else {
            format!("::core::cmp::PartialOrd::partial_cmp({a}, {b})")
        }
    };
    o.push_str("pub fn run(o: &mut Out) {\n    let xs = vals();\n    let ys = vals();\n");
    o.push_str("    let c0: ::std::vec::Vec<Cell> = vals().into_iter().map(|v| Cell { head: 0, v, tail: [0u8; 16] }).collect();\n");
    o.push_str("    let cf: ::std::vec::Vec<Cell> = vals().into_iter().map(|v| Cell { head: 0xFF, v, tail: [0xFFu8; 16] }).collect();\n");
    o.push_str(&format!("    let t7: ::std::vec::Vec<(u8, {ty}, u8)> = vals().into_iter().map(|v| (0x7Fu8, v, 0x80u8)).collect();\n"));
    o.push_str(&format!("    let bx: ::std::vec::Vec<::std::boxed::Box<{ty}>> = vals().into_iter().map(::std::boxed::Box::new).collect();\n"));
    o.push_str("    for (i, a) in xs.iter().enumerate() {\n        for (j, b) in ys.iter().enumerate() {\n");
    o.push_str("            let exp = expected(a, b);\n");
    o.push_str(&format!("            let got = {};\n", cmp_expr("a", "b")));
    o.push_str("            o.check(got == exp, || format!(\"values {i},{j} (discriminants {} and {}): educe says {:?}, declared discriminants/fields say {:?}\", disc(a), disc(b), got, exp));\n");
    if has_ord && has_pord {
        o.push_str("            let p = ::core::cmp::PartialOrd::partial_cmp(a, b);\n            o.check(p == got, || format!(\"values {i},{j}: partial_cmp {:?} but cmp {:?}\", p, got));\n");
    }
    o.push_str("            if disc(a) != disc(b) { o.tally(\"cross_variant\", 1); } else { o.tally(\"same_variant\", 1); }\n");
    for (n, a, b) in [("zero-tail vs ff-tail cells", "&c0[i].v", "&cf[j].v"), ("ff-tail cell vs tuple slot", "&cf[i].v", "&t7[j].1"), ("boxed vs zero-tail cell", "&*bx[i]", "&c0[j].v")] {
        o.push_str(&format!("            let g2 = {};\n", cmp_expr(a, b)));
        o.push_str(&format!("            o.check(g2 == exp, || format!(\"values {{i}},{{j}} placed as {n}: {{:?}} instead of {{:?}}\", g2, exp));\n"));
    }
    o.push_str("            o.tally(\"placements\", 3);\n");
    o.push_str("        }\n    }\n");
    o.push_str("    for (i, a) in xs.iter().enumerate() {\n        let exp = expected(a, a);\n");
    o.push_str(&format!("        let got = {};\n", cmp_expr("a", "a")));
    o.push_str("        o.check(got == exp, || format!(\"value {i} compared with itself (same object): {:?} instead of {:?}\", got, exp));\n    }\n");
    // self-validation of the oracle's discriminant arithmetic where the language lets us observe it
    let all_unit = s.variants.iter().all(|v| v.shape == Shape::Unit);
    if all_unit {
        o.push_str(&format!("    for (i, v) in vals().into_iter().enumerate() {{\n        let d = disc(&v);\n        let real = v as {dty};\n"));
        o.push_str("        if d != real { println!(\"F {} HARNESS oracle discriminant {} != `as` cast {} for value {}\", o.ty, d, real, i); o.fails += 1; }\n    }\n");
    }
    o.push_str("}\n");
    let prim = s.repr.as_deref().map(|r| r.split(',').any(|p| crate::gen::is_int_ty(p.trim()))).unwrap_or(false);
    let niche = s.all_fields().any(|f| {
        let t = &f.ty.inst;
        t.contains("bool") || t.contains("char") || t.contains('&') || t.contains("NonZero") || t.contains("Inner") || t.contains("Option")
    });
    let zst = s.all_fields().any(|f| f.ty.inst == "()" || f.ty.inst.contains("Phantom") || f.ty.inst == "[u8; 0]");
    let nonmono = if wide { discs_u.windows(2).any(|w| w[0] > w[1]) } else { discs.windows(2).any(|w| w[0] > w[1]) };
    let nv = s.variants.len();
    let mut classes = vec![];
    if s.has(Tr::Copy) && s.variants.iter().all(|v| v.shape == Shape::Unit) {
        classes.push("fieldless_copy_enum".to_string());
        if discs.iter().any(|x| *x > isize::MAX as i128 || *x < isize::MIN as i128) {
            classes.push("fieldless_copy_enum_with_discriminants_beyond_isize".to_string());
        }
    }
    if !prim {
        classes.push("no_primitive_repr".to_string());
    }
    if niche {
        classes.push("niche_payload".to_string());
    }
    if zst {
        classes.push("zero_sized_payload".to_string());
    }
    if nonmono {
        classes.push("non_monotonic_discriminants".to_string());
    }
    if discs.iter().any(|d| *d < 0) {
        classes.push("negative_discriminants".to_string());
    }
    if s.variants.iter().any(|v| v.disc.is_some()) {
        classes.push("explicit_discriminants".to_string());
    }
    if s.disc_shift > 0 {
        classes.push("discriminants_above_i128_max".to_string());
        if s.disc_shift < s.variants.len() {
            classes.push("discriminants_on_both_sides_of_i128_max".to_string());
        }
    }
    if nv == 1 {
        classes.push("single_variant".to_string());
    }
    if nv >= 127 {
        classes.push(format!("variants_{nv}"));
    }
    if let Some(r) = &s.repr {
        classes.push(format!("repr_{}", r.replace(", ", "_").replace(['(', ')'], "_")));
    }
    let nt = (nv >= 2 && (!prim || niche || nonmono || nv >= 129)) || nv == 1;
    Some(Rendered { observer: o, nontrivial: nt, need_tallies: vec!["placements"], classes })
}

pub fn run(ctx: &Ctx) -> i32 {
    crate::props::behave::run(ctx, &behaviour())
}

pub fn behaviour() -> Behaviour {
    Behaviour {
        prop: "C04",
        rule: "enums over variant shapes x payload types (niches: bool, char, references, NonZero, Option, nested enum; zero-sized; wide) x repr (none, \
               every primitive, C alone with int / unsigned int ranges, `C, u8`, align(N)) x explicit discriminants (edges of the repr range, negative, non-monotonic) x variant counts \
               1..5 and 127/128/129/255/256/257; all ordered pairs of values are compared with a rendered oracle (declared discriminant across variants, \
               rank-ordered fields within a variant) from four memory placements (plain, repr(C) cells with 00 and FF neighbours, tuple slot, Box); \
               the oracle's discriminants are self-checked against `as` casts for fieldless enums; non-trivial = >=2 variants with no primitive repr, \
               a niche payload, non-monotonic discriminants or >=129 variants, or a single-variant enum; distinct by definition hash",
        salt: 0xC04,
        cfg,
        adjust,
        render,
        quick: 4500,
        thorough: 15000,
        batch: 20,
        assumptions: &["layout-dependent behaviour is observed on x86-64 only; the debug build turns misaligned reads into aborts"],
        miri_units: 24,
        extra: None,
    }
}
