//! C14 — alternative attribute spellings are interchangeable (metamorphic, in-process).
use serde_json::json;

use crate::check::{self, Ctx, Failure, Report};
use crate::dna::Dna;
use crate::engine::{self, Expansion};
use crate::gen::{self, GenCfg};
use crate::items;
use crate::spec::*;

/// re-spell a request: new spelling bytes everywhere, new attribute layout, permuted trait and
/// parameter order (a leading `unsafe` stays first), permuted field/variant attribute order
pub fn respell(s: &mut TypeSpec, d: &mut Dna) {
    for b in s.spelling_bytes_mut() {
        *b = d.byte();
    }
    fn shuffle<T>(v: &mut Vec<T>, d: &mut Dna) {
        let n = v.len();
        for i in (1..n).rev() {
            let j = d.pick(i + 1);
            v.swap(i, j);
        }
    }
    fn shuffle_params(ps: &mut Vec<(TParam, u8)>, d: &mut Dna) {
        let uns: Vec<(TParam, u8)> = ps.iter().filter(|(p, _)| matches!(p, TParam::Unsafe)).cloned().collect();
        let mut rest: Vec<(TParam, u8)> = ps.iter().filter(|(p, _)| !matches!(p, TParam::Unsafe)).cloned().collect();
        let n = rest.len();
        for i in (1..n).rev() {
            let j = d.pick(i + 1);
            rest.swap(i, j);
        }
        *ps = uns;
        ps.extend(rest);
    }
    shuffle(&mut s.traits, d);
    for a in s.traits.iter_mut() {
        shuffle_params(&mut a.params, d);
    }
    for v in s.variants.iter_mut() {
        shuffle(&mut v.attrs, d);
        for a in v.attrs.iter_mut() {
            shuffle_params(&mut a.params, d);
        }
        for f in v.fields.iter_mut() {
            shuffle(&mut f.attrs, d);
            for a in f.attrs.iter_mut() {
                let n = a.params.len();
                for i in (1..n).rev() {
                    let j = d.pick(i + 1);
                    a.params.swap(i, j);
                }
            }
        }
    }
}


/// every attribute item of a request keyed by its position and trait, with its rendered text and parameter texts
fn attr_forms(s: &TypeSpec) -> std::collections::BTreeMap<String, (String, Vec<String>)> {
    let mut m = std::collections::BTreeMap::new();
    let pkey = |p: &str| p.split(|c: char| !(c.is_alphanumeric() || c == '_')).next().unwrap_or("").replace("rename", "name").replace("expression", "expr");
    let mut put = |k: String, whole: String, params: Vec<String>| {
        let mut ps: Vec<String> = params;
        ps.sort_by_key(|p| pkey(p));
        m.insert(k, (whole, ps));
    };
    for (i, a) in s.traits.iter().enumerate() {
        let _ = i;
        put(format!("T/{}/{}", a.tr.name(), a.into_ty.clone().unwrap_or_default()), render_tattr(a), a.params.iter().map(|(p, sp)| render_tattr(&TAttr { tr: Tr::Debug, into_ty: None, params: vec![(p.clone(), *sp)], sp: 0 })).collect());
    }
    for (vi, v) in s.variants.iter().enumerate() {
        for a in &v.attrs {
            put(format!("V{vi}/{}", a.tr.name()), render_tattr(a), a.params.iter().map(|(p, sp)| render_tattr(&TAttr { tr: Tr::Debug, into_ty: None, params: vec![(p.clone(), *sp)], sp: 0 })).collect());
        }
        for (fi, f) in v.fields.iter().enumerate() {
            for a in &f.attrs {
                put(format!("F{vi}.{fi}/{}/{}", a.tr.name(), a.into_ty.clone().unwrap_or_default()), render_fattr(a), a.params.iter().map(|(p, sp)| render_fattr(&FAttr { tr: Tr::Clone, into_ty: None, params: vec![(p.clone(), *sp)], sp: 0 })).collect());
            }
        }
    }
    m
}

/// the spelling groups in which two renderings of one request differ
fn groups_exercised(s1: &TypeSpec, s2: &TypeSpec) -> Vec<&'static str> {
    let mut g: std::collections::BTreeSet<&'static str> = Default::default();
    let (f1, f2) = (attr_forms(s1), attr_forms(s2));
    for (k, (w1, p1)) in &f1 {
        let Some((w2, p2)) = f2.get(k) else { continue };
        let shorthand = |w: &str| !w.contains('(') && w.contains(" = ");
        if shorthand(w1) != shorthand(w2) {
            g.insert("shorthand_vs_long_form");
        }
        for (a, b) in p1.iter().zip(p2.iter()) {
            // strip the synthetic `Debug(` / `Clone(` wrapper
            let a = a.split_once('(').map(|x| x.1).unwrap_or(a).trim_end_matches(')').to_string();
            let b = b.split_once('(').map(|x| x.1).unwrap_or(b).trim_end_matches(')').to_string();
            if a == b {
                continue;
            }
            if a.contains(" = ") != b.contains(" = ") {
                g.insert("p_eq_v_vs_p_parens_v");
            }
            if a.contains('"') != b.contains('"') {
                g.insert("token_vs_string_literal");
            }
            if a.starts_with("rename") != b.starts_with("rename") {
                g.insert("name_vs_rename");
            }
            if a.starts_with("expression") != b.starts_with("expression") {
                g.insert("expression_vs_expr");
            }
            if a.starts_with("ignore") || a.starts_with("new") {
                g.insert("flag_forms(ignore/new)");
            }
            if a.starts_with("bound") && (a.contains("false") || a.contains("\"\"")) {
                g.insert("bound_false_forms");
            }
            if a.contains("false") != b.contains("false") && (a.contains("name") || a.contains("rename")) {
                g.insert("name_false_vs_empty_string");
            }
        }
    }
    let order = |s: &TypeSpec| s.traits.iter().map(|a| format!("{}{}", a.tr.name(), a.into_ty.clone().unwrap_or_default())).collect::<Vec<_>>();
    if order(s1) != order(s2) {
        g.insert("trait_order");
    }
    let porder = |s: &TypeSpec| {
        let mut o = String::new();
        for a in &s.traits {
            o.push_str(&format!("{:?};", a.params.iter().map(|(p, _)| std::mem::discriminant(p)).collect::<Vec<_>>()));
        }
        for v in &s.variants {
            for a in &v.attrs {
                o.push_str(&format!("{:?};", a.params.iter().map(|(p, _)| std::mem::discriminant(p)).collect::<Vec<_>>()));
            }
            for f in &v.fields {
                let mut at: Vec<&FAttr> = f.attrs.iter().collect();
                at.sort_by_key(|a| (a.tr, a.into_ty.clone()));
                for a in at {
                    o.push_str(&format!("{:?};", a.params.iter().map(|(p, _)| std::mem::discriminant(p)).collect::<Vec<_>>()));
                }
            }
        }
        o
    };
    {
        let mut t1 = s1.clone();
        let mut t2 = s2.clone();
        t1.traits.sort_by_key(|a| (a.tr, a.into_ty.clone()));
        t2.traits.sort_by_key(|a| (a.tr, a.into_ty.clone()));
        for v in t1.variants.iter_mut().chain(t2.variants.iter_mut()) {
            v.attrs.sort_by_key(|a| a.tr);
        }
        if porder(&t1) != porder(&t2) {
            g.insert("parameter_order");
        }
    }
    let layout = |s: &TypeSpec| {
        let mut o = format!("{}", if s.traits.len() > 1 { s.split % 3 } else { 0 });
        for v in &s.variants {
            o.push_str(&format!("{}", if v.attrs.len() > 1 { v.split % 3 } else { 0 }));
            for f in &v.fields {
                o.push_str(&format!("{}", if f.attrs.len() > 1 { f.split % 3 } else { 0 }));
            }
        }
        o
    };
    if layout(s1) != layout(s2) {
        g.insert("one_list_vs_several_attributes");
    }
    let forder = |s: &TypeSpec| s.variants.iter().flat_map(|v| v.fields.iter().map(|f| f.attrs.iter().map(|a| format!("{}{}", a.tr.name(), a.into_ty.clone().unwrap_or_default())).collect::<Vec<_>>())).collect::<Vec<_>>();
    if forder(s1) != forder(s2) {
        g.insert("field_attribute_order");
    }
    g.into_iter().collect()
}

pub struct Pair {
    pub a: String,
    pub b: String,
    /// which spelling groups of the statement the two renderings actually exercise
    pub groups: Vec<&'static str>,
    pub field_level_differs: bool,
    pub verdict: Result<(), String>,
    pub both_ok: bool,
}

fn item_multiset(e: &Expansion) -> Result<Vec<String>, String> {
    match e {
        Expansion::Ok(t) => {
            let mut v: Vec<String> = items::split_items_str(t)?.into_iter().map(|i| i.text).collect();
            v.sort();
            Ok(v)
        },
        other => Err(format!("{:?}", other)),
    }
}

pub fn eval(dna: &[u16]) -> Pair {
    let mut d = Dna::new(dna);
    let cfg = GenCfg::full();
    let built = gen::build(&mut d, &cfg);
    let mut base = built.spec;
    let _ = crate::props::c12::exotic_in_process(&mut base, &mut d);
    let mut s1 = base.clone();
    let mut s2 = base;
    respell(&mut s1, &mut d);
    respell(&mut s2, &mut d);
    let a = s1.render_def_with("", true);
    let mut b = s2.render_def_with("", true);
    // one more spelling of the same tokens: as a `macro_rules!` body hands them to the derive, with field types,
    // discriminants, parameter values and Into targets inside invisible groups (`__ng(..)`, see engine::none_groups)
    if d.chance(30) {
        let bits = 1 + d.pick(15) as u8;
        b = s2.render_def_grouped(bits);
    }
    // do the two spellings differ below the type level?
    let inner = |s: &TypeSpec| -> String {
        let mut o = String::new();
        for v in &s.variants {
            o.push_str(&v.attrs.iter().map(render_tattr).collect::<Vec<_>>().join(","));
            o.push_str(&format!("/{}/", v.split % 3));
            for f in &v.fields {
                o.push_str(&f.attrs.iter().map(render_fattr).collect::<Vec<_>>().join(","));
                o.push_str(&format!("/{}/", if f.attrs.len() > 1 { f.split % 3 } else { 0 }));
            }
        }
        o
    };
    let field_level_differs = inner(&s1) != inner(&s2);
    let mut groups = groups_exercised(&s1, &s2);
    if b.contains("__ng") {
        groups.push("macro_fragments_vs_plain_tokens");
    }
    let ea = engine::expand_src(&a);
    let eb = engine::expand_src(&b);
    let both_ok = ea.is_ok() && eb.is_ok();
    let verdict = match (&ea, &eb) {
        (Expansion::Ok(_), Expansion::Ok(_)) => match (item_multiset(&ea), item_multiset(&eb)) {
            (Ok(x), Ok(y)) => {
                if x == y {
                    Ok(())
                } else {
                    let only_a: Vec<&String> = x.iter().filter(|i| !y.contains(i)).collect();
                    let only_b: Vec<&String> = y.iter().filter(|i| !x.contains(i)).collect();
                    Err(format!("the two spellings generate different code\n  only spelling A: {:?}\n  only spelling B: {:?}", only_a, only_b))
                }
            },
            (Err(e), _) | (_, Err(e)) => Err(format!("expansion cannot be analysed: {e}")),
        },
        (Expansion::Err(x), Expansion::Err(y)) => {
            // both refused: not a spelling difference (the known-findings lane of C01 owns refusals)
            let _ = (x, y);
            Ok(())
        },
        (Expansion::Panic(_), Expansion::Panic(_)) => Ok(()),
        (x, y) => Err(format!("one spelling is {} and the other {}: A = {:?} / B = {:?}", x.tag(), y.tag(), short(x), short(y))),
    };
    Pair { a, b, groups, field_level_differs, verdict, both_ok }
}

fn short(e: &Expansion) -> String {
    match e {
        Expansion::Ok(_) => "Ok(..)".into(),
        other => format!("{:?}", other).chars().take(300).collect(),
    }
}

pub fn run(ctx: &Ctx) -> i32 {
    let mut rep = Report::new(
        ctx,
        "one generated request rendered under two independent spelling assignments (p = v / p(v), identifier vs string literal, \
         name/rename, expression/expr, Trait = X shorthands, ignore forms, one vs several #[educe] attributes, permuted trait and \
         parameter order with unsafe kept first); oracle: both expand and the multisets of generated impl items are token-identical; \
         non-trivial = the two renderings differ at field or variant level; distinct by hash of the rendering pair",
    );
    rep.assumptions.push("token text of the in-process expansion is faithful on the Ok path".into());
    if let Some(p) = &ctx.replay {
        let Some(v) = check::read_replay(p) else { rep.inconclusive.push("unreadable replay file".into()); return rep.finish() };
        // the saved pair of renderings is replayed as it is (independent of the generator's current version)
        let saved = v["source"].as_str().unwrap_or("");
        if let Some((a, b)) = saved.strip_prefix("// spelling A\n").and_then(|r| r.split_once("\n// spelling B\n")) {
            rep.evaluations = 1;
            let (ea, eb) = (engine::expand_src(a), engine::expand_src(b));
            let same = match (item_multiset(&ea), item_multiset(&eb)) {
                (Ok(x), Ok(y)) => x == y,
                _ => ea.tag() == eb.tag() && !ea.is_ok(),
            };
            if !same {
                rep.violations.push(Failure { msg: format!("the two saved spellings still disagree: A is {}, B is {}", ea.tag(), eb.tag()), dna: check::dna_of(&v), variant: "replay".into(), source: saved.to_string(), unit_body: None });
            }
            return rep.finish();
        }
        let pr = eval(&check::dna_of(&v));
        rep.evaluations = 1;
        if let Err(m) = pr.verdict {
            rep.violations.push(Failure { msg: m, dna: check::dna_of(&v), variant: "replay".into(), source: format!("// spelling A\n{}\n// spelling B\n{}", pr.a, pr.b), unit_body: None });
        }
        return rep.finish();
    }
    let n = ctx.scale(60000, 300000);
    let mut trees = check::draw(ctx.seed, 0xC14, n, 520);
    let dnas: Vec<Vec<u16>> = trees.iter().map(|t| t.current()).collect();
    use rayon::prelude::*;
    let results: Vec<Pair> = dnas.par_iter().map(|d| eval(d)).collect();
    for (i, pr) in results.into_iter().enumerate() {
        rep.evaluations += 1;
        if !pr.both_ok {
            rep.count("not_both_accepted", 1);
        }
        if pr.a != pr.b {
            rep.count("renderings_differ", 1);
        }
        if pr.both_ok {
            for g in &pr.groups {
                rep.class(g);
            }
        }
        if pr.field_level_differs && pr.both_ok {
            rep.nontrivial.insert(fnv64(&format!("{}\n{}", pr.a, pr.b)));
        }
        if i < 2 {
            rep.sample(json!({"spelling_a": pr.a, "spelling_b": pr.b}));
        }
        if pr.verdict.is_err() {
            let (best, steps) = check::shrink(&mut trees[i], 300, |d| eval(d).verdict.is_err());
            rep.count("shrink_steps", steps as u64);
            let p2 = eval(&best);
            rep.violations.push(Failure {
                msg: p2.verdict.err().unwrap_or_else(|| "spellings disagree".into()),
                dna: best,
                variant: "pair".into(),
                source: format!("// spelling A\n{}\n// spelling B\n{}", p2.a, p2.b),
                unit_body: None,
            });
            if rep.violations.len() >= 10 {
                break;
            }
        }
    }
    rep.finish()
}
