//! C12 — explicit bound modes and the type's own generics are honoured verbatim (syntactic half,
//! in-process; the semantic half lives with C11's probes).
use serde_json::json;

use crate::check::{self, Ctx, Failure, Report};
use crate::dna::Dna;
use crate::engine::{self, Expansion};
use crate::gen::{self, GenCfg};
use crate::items::{self, canon_pred, ImplItem};
use crate::spec::*;

pub fn bound_allowed(s: &TypeSpec, t: Tr) -> bool {
    match t {
        Tr::Deref | Tr::DerefMut => false,
        Tr::Debug | Tr::PartialEq | Tr::Hash if s.kind == Kind::Union => false,
        Tr::Copy => !s.has(Tr::Clone),
        Tr::Eq => !s.has(Tr::PartialEq),
        Tr::PartialOrd => !s.has(Tr::Ord),
        _ => true,
    }
}

/// give traits explicit bound modes with arbitrary predicates (nothing is compiled here, so the
/// predicates need not be satisfiable)
pub fn assign_bounds(s: &mut TypeSpec, d: &mut Dna) {
    let params: Vec<String> = s.gens.types.iter().map(|t| t.name.clone()).collect();
    let lts: Vec<String> = s.gens.lifetimes.iter().map(|l| l.0.clone()).collect();
    let mut pool: Vec<String> = vec!["u8: Copy".into(), "Vec<u8>: ::core::clone::Clone".into(), "(): Sized".into()];
    for p in &params {
        pool.push(format!("{p}: Key"));
        pool.push(format!("{p}: ::core::fmt::Debug + Send"));
        pool.push(format!("Vec<{p}>: ::core::clone::Clone"));
        pool.push(format!("{p}: 'static"));
        pool.push(format!("{p}: ::core::convert::Into<u8>"));
        pool.push(format!("Option<{p}>: PartialEq<Option<{p}>>"));
        pool.push(format!("for<'q> &'q {p}: ::core::marker::Sized"));
        pool.push(format!("[{p}; 2]: ::core::default::Default"));
        pool.push(format!("<{p} as ::core::iter::IntoIterator>::Item: ::core::marker::Copy"));
        pool.push(format!("{p}: ::core::ops::Fn(u8) -> u8"));
    }
    if lts.len() >= 2 {
        pool.push(format!("'{}: '{}", lts[0], lts[1]));
    }
    if let (Some(l), Some(p)) = (lts.first(), params.first()) {
        pool.push(format!("{p}: '{l}"));
        pool.push(format!("&'{l} {p}: ::core::marker::Copy"));
    }
    for l in &lts {
        pool.push(format!("'{l}: 'static"));
    }
    for i in 0..s.traits.len() {
        let t = s.traits[i].tr;
        if !bound_allowed(s, t) {
            continue;
        }
        if !d.chance(60) {
            continue;
        }
        let mode = match d.weighted(&[30, 30, 30, 10]) {
            0 => BoundV::All,
            1 => BoundV::False,
            2 => {
                let n = 1 + d.pick(3);
                let mut v = Vec::new();
                for _ in 0..n {
                    let p = d.choose(&pool).clone();
                    if !v.contains(&p) {
                        v.push(p);
                    }
                }
                BoundV::Custom(v)
            },
            _ => BoundV::True,
        };
        let a = &mut s.traits[i];
        a.params.retain(|(p, _)| !matches!(p, TParam::Bound(_)));
        let at = if a.params.iter().any(|(p, _)| matches!(p, TParam::Unsafe)) { a.params.len() } else { d.pick(a.params.len() + 1) };
        a.params.insert(at, (TParam::Bound(mode), d.byte()));
    }
}

/// the attribute whose `bound` governs this item's where-clause
fn governing<'a>(s: &'a TypeSpec, it: &ImplItem) -> Option<&'a TAttr> {
    let owner = items::owner(it);
    let by = |t: Tr| s.attr(t);
    match owner.as_str() {
        "Debug" => by(Tr::Debug),
        "Clone" => by(Tr::Clone),
        "Copy" => if s.has(Tr::Clone) { by(Tr::Clone) } else { by(Tr::Copy) },
        "PartialEq" => by(Tr::PartialEq),
        "Eq" => if s.has(Tr::PartialEq) { by(Tr::PartialEq) } else { by(Tr::Eq) },
        "PartialOrd" => if s.has(Tr::Ord) { by(Tr::Ord) } else { by(Tr::PartialOrd) },
        "Ord" => by(Tr::Ord),
        "Hash" => by(Tr::Hash),
        "Default" => by(Tr::Default),
        "Deref" => by(Tr::Deref),
        "DerefMut" => by(Tr::DerefMut),
        "Into" => {
            let want = it.trait_args.clone().unwrap_or_default();
            s.traits.iter().find(|a| {
                a.tr == Tr::Into
                    && a.into_ty.as_ref().map(|t| syn::parse_str::<syn::Type>(t).map(|x| items::norm(&x)).unwrap_or_default() == want).unwrap_or(false)
            })
        },
        _ => None,
    }
}

/// canonical name of the trait that `bound(*)` must put on every type parameter for this item
fn star_trait(s: &TypeSpec, it: &ImplItem) -> String {
    let owner = items::owner(it);
    match owner.as_str() {
        // the Copy impl always needs Copy (also next to a field-by-field Clone impl, which only needs Clone)
        "Copy" => "Copy".into(),
        "Clone" => {
            let enum_with_method = s.kind == Kind::Enum && s.all_fields().any(|f| f.method(Tr::Clone).is_some());
            if s.kind == Kind::Union || (s.has(Tr::Copy) && !enum_with_method) || !s.has(Tr::Clone) {
                "Copy".into()
            } else {
                "Clone".into()
            }
        },
        "Eq" | "PartialEq" => "PartialEq".into(),
        "PartialOrd" | "Ord" => if s.has(Tr::Ord) { "Ord".into() } else { "PartialOrd".into() },
        "Into" => format!("Into<{}>", it.trait_args.clone().unwrap_or_default().replace(' ', "")),
        o => o.to_string(),
    }
}

pub struct Res {
    pub src: String,
    pub evaluated: bool,
    pub nontrivial: bool,
    pub verdict: Result<(), String>,
    pub modes: Vec<&'static str>,
}

pub fn eval(dna: &[u16]) -> Res {
    let mut d = Dna::new(dna);
    let mut cfg = GenCfg::full();
    cfg.bounds = false;
    cfg.trait_pct = 40;
    cfg.const_pct = 40;
    let built = gen::build(&mut d, &cfg);
    let mut s = built.spec;
    assign_bounds(&mut s, &mut d);
    let src = s.render_def_with("", true);
    let e = engine::expand_src(&src);
    let Expansion::Ok(text) = &e else {
        return Res { src, evaluated: false, nontrivial: false, verdict: Ok(()), modes: vec![] };
    };
    let its = match items::split_items_str(text) {
        Ok(i) => i,
        Err(m) => return Res { src, evaluated: true, nontrivial: false, verdict: Err(format!("expansion cannot be analysed: {m}")), modes: vec![] },
    };
    // expected header
    let exp_generics = syn::parse_str::<syn::Generics>(&s.gens.impl_decl()).map(|g| items::norm(&g)).unwrap_or_else(|_| s.gens.impl_decl());
    let exp_self = syn::parse_str::<syn::Type>(&s.self_ty()).map(|t| items::norm(&t)).unwrap_or_default();
    let user_preds: Vec<String> = s
        .gens
        .where_preds
        .iter()
        .map(|p| syn::parse_str::<syn::WherePredicate>(p).map(|x| canon_pred(&items::norm(&x))).unwrap_or_else(|_| canon_pred(p)))
        .collect();
    let mut modes = Vec::new();
    let mut problems: Vec<String> = Vec::new();
    for it in &its {
        let who = format!("impl {} for ..", it.trait_path.clone().unwrap_or_else(|| "(inherent)".into()));
        if it.generics != exp_generics {
            problems.push(format!("{who}: generic parameter list is `{}` but the type declares `{}`", it.generics, exp_generics));
        }
        if it.self_ty != exp_self {
            problems.push(format!("{who}: self type is `{}`, expected `{}`", it.self_ty, exp_self));
        }
        let mut got: Vec<String> = it.where_preds.iter().map(|p| canon_pred(p)).collect();
        // the user's own where-clause must be there, unchanged
        for up in &user_preds {
            match got.iter().position(|g| g == up) {
                Some(i) => {
                    got.remove(i);
                },
                None => problems.push(format!("{who}: the type's own where-predicate `{up}` is missing")),
            }
        }
        let Some(attr) = governing(&s, it) else {
            problems.push(format!("{who}: no educed trait accounts for this item"));
            continue;
        };
        let mut expected: Option<Vec<String>> = match attr.bound() {
            None | Some(BoundV::True) => {
                modes.push("auto");
                None
            },
            Some(BoundV::False) => {
                modes.push("false");
                Some(vec![])
            },
            Some(BoundV::All) => {
                modes.push("all");
                let tn = star_trait(&s, it);
                Some(s.gens.types.iter().map(|p| format!("{}:{}", p.name, tn)).collect())
            },
            Some(BoundV::Custom(ps)) => {
                modes.push("custom");
                Some(ps.iter().map(|p| syn::parse_str::<syn::WherePredicate>(p).map(|x| canon_pred(&items::norm(&x))).unwrap_or_else(|_| canon_pred(p))).collect())
            },
        };
        if matches!(s.kind, Kind::Union) && matches!(items::owner(it).as_str(), "Debug" | "PartialEq" | "Hash" | "Eq") && matches!(attr.tr, Tr::Debug | Tr::PartialEq | Tr::Hash) {
            // byte-wise union impls take no bound parameter and add nothing
            expected = Some(vec![]);
        }
        if matches!(items::owner(it).as_str(), "Deref" | "DerefMut") {
            expected = Some(vec![]);
        }
        if let Some(mut exp) = expected {
            exp.sort();
            got.sort();
            if exp != got {
                problems.push(format!("{who}: where-clause additions are {:?}, expected exactly {:?} (mode {:?})", got, exp, attr.bound()));
            }
        }
    }
    let explicit = s.traits.iter().any(|a| matches!(a.bound(), Some(BoundV::All) | Some(BoundV::False) | Some(BoundV::Custom(_))));
    let rich = !s.gens.consts.is_empty() || !s.gens.lifetimes.is_empty() || !s.gens.where_preds.is_empty() || s.gens.types.iter().any(|t| t.default.is_some() || !t.bounds.is_empty());
    let verdict = if problems.is_empty() { Ok(()) } else { Err(problems.join("\n  ")) };
    Res { src, evaluated: true, nontrivial: explicit && rich, verdict, modes }
}

pub fn run(ctx: &Ctx) -> i32 {
    let mut rep = Report::new(
        ctx,
        "generic parameter lists (lifetimes with bounds, bounded/defaulted type parameters, const parameters with defaults), user \
         where-clauses, every trait, bound spellings `bound(*)`, `bound(p, ..)`, `bound = \"..\"`, `bound = false`, `bound(false)`, \
         `bound = \"\"` with arbitrary predicates; oracle: every generated impl header equals the type's parameters minus defaults, the \
         self type is Name<params>, and where-predicates = user predicates + exactly the additions the mode prescribes (multiset, \
         canonical paths); non-trivial = an explicit (non-automatic) mode on a type with a lifetime, const parameter, default, inline \
         bound or where-clause; distinct by request hash",
    );
    if let Some(p) = &ctx.replay {
        let Some(v) = check::read_replay(p) else { rep.inconclusive.push("unreadable replay file".into()); return rep.finish() };
        if v["unit_body"].is_string() {
            return check::replay_unit(ctx);
        }
        let r = eval(&check::dna_of(&v));
        rep.evaluations = 1;
        if let Err(m) = r.verdict {
            rep.violations.push(Failure { msg: m, dna: check::dna_of(&v), variant: "replay".into(), source: r.src, unit_body: None });
        }
        return rep.finish();
    }
    // semantic lane: explicit modes probed by trait resolution (bound(*) constrains parameters that occur only in
    // ignored fields, custom predicates add only what is written, false adds nothing)
    match engine::build_proc_macro() {
        Ok(so) => crate::props::c11::lane(ctx, &mut rep, &so, ctx.scale(3000, 8000), 0xC125, true, "C12-sem"),
        Err(e) => rep.inconclusive.push(e.0),
    }
    let n = ctx.scale(40000, 200000);
    let mut trees = check::draw(ctx.seed, 0xC12, n, 520);
    let dnas: Vec<Vec<u16>> = trees.iter().map(|t| t.current()).collect();
    use rayon::prelude::*;
    let results: Vec<Res> = dnas.par_iter().map(|d| eval(d)).collect();
    for (i, r) in results.into_iter().enumerate() {
        rep.evaluations += 1;
        if !r.evaluated {
            rep.count("refused(skipped)", 1);
            continue;
        }
        for m in &r.modes {
            rep.class(&format!("item_mode_{m}"));
        }
        if r.nontrivial {
            rep.nontrivial.insert(fnv64(&r.src));
        }
        if i < 3 {
            rep.sample(json!(r.src));
        }
        if r.verdict.is_err() {
            let (best, steps) = check::shrink(&mut trees[i], 300, |d| eval(d).verdict.is_err());
            rep.count("shrink_steps", steps as u64);
            let r2 = eval(&best);
            rep.violations.push(Failure { msg: r2.verdict.err().unwrap_or_default(), dna: best, variant: "header".into(), source: r2.src, unit_body: None });
            if rep.violations.len() >= 10 {
                break;
            }
        }
    }
    rep.finish()
}

/// Requests that are only ever expanded in-process (nothing is compiled) may use what the compile lanes cannot:
/// `#[repr(packed)]` (references to packed fields do not compile, but the generated tokens still must not depend on
/// anything but the request) and bound predicates that need not be satisfiable.
pub fn exotic_in_process(s: &mut TypeSpec, d: &mut Dna) -> Vec<&'static str> {
    let mut classes = Vec::new();
    if s.kind != Kind::Enum && d.chance(12) {
        s.repr = Some(d.choose(&["packed", "packed(2)", "C, packed", "packed(1)"]).to_string());
        classes.push("repr_packed(in-process only)");
    }
    if d.chance(25) {
        assign_bounds(s, d);
        classes.push("arbitrary_custom_bounds(in-process only)");
    }
    classes
}
