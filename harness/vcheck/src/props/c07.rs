//! C07 — Clone and clone_from reproduce the source value field by field.
use crate::check::Ctx;
use crate::dna::Dna;
use crate::gen::GenCfg;
use crate::props::behave::*;
use crate::spec::*;
use crate::types::{tracked, weird};

fn cfg(d: &mut Dna) -> GenCfg {
    let mut c = GenCfg::behaviour(&[Tr::Clone], &[Tr::Copy, Tr::Debug, Tr::PartialEq]);
    // the bound modes decide where an impl applies, never what it does
    c.bounds = true;
    c.kinds = vec![Kind::Struct, Kind::Enum, Kind::Union];
    c.trait_pct = 25;
    c.attr_pct = 45;
    c.max_variants = 4;
    c.partial_types = false;
    c.extra_types = vec![tracked(), weird(), tracked(), weird()];
    let _ = d;
    c
}

/// front-load the instrumented types: replace some plain fields by Tracked / Weird where the trait set allows
fn adjust(s: &mut TypeSpec, d: &mut Dna) -> bool {
    if s.kind == Kind::Union {
        return true;
    }
    // `bound(*)` on a generic Copy + Clone enum: a bound mode decides where the impl applies, never what clone() does
    if s.kind == Kind::Enum && s.has(Tr::Copy) && !s.gens.types.is_empty() && d.chance(35) {
        let sp = d.byte();
        if let Some(a) = s.traits.iter_mut().find(|a| a.tr == Tr::Clone) {
            a.params.retain(|(p, _)| !matches!(p, TParam::Bound(_)));
            a.params.push((TParam::Bound(BoundV::All), sp));
        }
    }
    let copy = s.has(Tr::Copy);
    let only_clone_like = s.traits.iter().all(|a| matches!(a.tr, Tr::Clone | Tr::Copy));
    if !only_clone_like {
        return true;
    }
    for v in s.variants.iter_mut() {
        for f in v.fields.iter_mut() {
            if !f.ty.params.is_empty() || !d.chance(45) {
                continue;
            }
            let t = if copy || d.chance(40) { weird() } else { tracked() };
            let has_method = f.attrs.iter().any(|a| a.tr == Tr::Clone);
            if has_method {
                if t.clone_methods.is_empty() {
                    continue;
                }
                for a in f.attrs.iter_mut() {
                    if a.tr == Tr::Clone {
                        a.params[0].0 = FParam::Method(t.clone_methods[0].clone());
                    }
                }
            }
            f.ty = t;
        }
    }
    true
}

pub fn render(s: &TypeSpec) -> Option<Rendered> {
    if s.variants.is_empty() {
        return None;
    }
    let ty = s.inst_ty();
    let copy = s.has(Tr::Copy);
    let mut o = String::new();
    if s.kind == Kind::Union {
        // value k was built by zeroing the storage and writing field `owner[k]`; a bitwise copy must read back the same
        // field value (raw bytes are not compared: padding inside a field does not survive a typed copy)
        let mut owner: Vec<&str> = Vec::new();
        for f in &s.variants[0].fields {
            for _ in &f.ty.vals {
                owner.push(f.name.as_deref().unwrap());
            }
        }
        o.push_str(&format!("pub fn read(x: &{ty}, k: usize) -> i64 {{\n    match k {{\n"));
        for (k, f) in owner.iter().enumerate() {
            o.push_str(&format!("        {k} => Key::key(unsafe {{ &x.{f} }}),\n"));
        }
        o.push_str("        _ => unreachable!(),\n    }\n}\n");
        o.push_str("pub fn run(o: &mut Out) {\n    let xs = vals();\n");
        o.push_str("    for (i, x) in xs.iter().enumerate() {\n        let c = x.clone();\n");
        o.push_str("        o.check(read(&c, i) == read(x, i), || format!(\"clone of union value {i} does not hold the written field\"));\n");
        o.push_str("        for (j, y) in xs.iter().enumerate() {\n            let mut a = vals().swap_remove(i);\n            a.clone_from(y);\n");
        o.push_str("            o.check(read(&a, j) == read(y, j), || format!(\"clone_from({i} <- {j}) does not hold the source's field\"));\n            o.tally(\"clone_from_pairs\", 1);\n        }\n    }\n");
        if copy {
            o.push_str(&format!("    o.check(impls!({ty}: Copy), || \"Copy was educed but the type is not Copy\".to_string());\n"));
        }
        o.push_str("}\n");
        return Some(Rendered { observer: o, nontrivial: s.variants[0].fields.len() >= 2, need_tallies: vec!["clone_from_pairs"], classes: vec!["union".into()] });
    }
    let any_method = s.all_fields().any(|f| f.method(Tr::Clone).is_some());
    // bitwise copy: Copy educed and no custom method in use (structs never take methods together with Copy)
    let bitwise = copy && !any_method;
    // fingerprint: variant + per-field keys
    o.push_str(&format!("pub fn fp(a: &{ty}) -> (usize, ::std::vec::Vec<i64>) {{\n    let b = a;\n"));
    o.push_str(&match_same_variant(
        s,
        |vi| {
            let v = &s.variants[vi];
            let keys: Vec<String> = (0..v.fields.len()).map(|i| format!("Key::key(a{i})")).collect();
            format!("{}({vi}, vec![{}])", touch_all(v), keys.join(", "))
        },
        "unreachable!()",
    ));
    o.push_str("}\n");
    // per-field check after clone: (x, c) same variant
    o.push_str(&format!("pub fn check_clone(o: &mut Out, i: usize, a: &{ty}, b: &{ty}, dc: u64, dw: u64) {{\n"));
    o.push_str(&match_same_variant(
        s,
        |vi| {
            let v = &s.variants[vi];
            let mut code = touch_all(v);
            let mut exp_clones = 0;
            let mut exp_weird = 0;
            for (k, f) in v.fields.iter().enumerate() {
                let t = f.ty.inst.as_str();
                let m = f.method(Tr::Clone);
                let what = format!("value {{i}} variant {vi} field {k}");
                match (t, m) {
                    ("Tracked", Some(_)) => code.push_str(&format!(
                        "o.check(b{k}.id == a{k}.id && b{k}.via == 9 && b{k}.gen == a{k}.gen + 1, || format!(\"{what}: custom method not applied exactly once to the corresponding field: {{:?}} -> {{:?}}\", a{k}, b{k})); "
                    )),
                    ("Tracked", None) => {
                        exp_clones += 1;
                        code.push_str(&format!(
                            "o.check(b{k}.id == a{k}.id && b{k}.via == 1 && b{k}.gen == a{k}.gen + 1, || format!(\"{what}: Clone::clone not applied exactly once to the corresponding field: {{:?}} -> {{:?}}\", a{k}, b{k})); "
                        ));
                    },
                    ("Weird", _) if bitwise => code.push_str(&format!("o.check(b{k} == a{k}, || format!(\"{what}: not a bitwise copy: {{:?}} -> {{:?}}\", a{k}, b{k})); ")),
                    ("Weird", None) => {
                        exp_weird += 1;
                        code.push_str(&format!("o.check(b{k}.0 == a{k}.0.wrapping_add(100), || format!(\"{what}: Clone::clone of the field type was not used: {{:?}} -> {{:?}}\", a{k}, b{k})); "));
                    },
                    (_, Some("m_clone_u8")) => code.push_str(&format!("o.check(*b{k} == a{k}.wrapping_add(100), || format!(\"{what}: m_clone_u8 not applied: {{:?}} -> {{:?}}\", a{k}, b{k})); ")),
                    (_, Some("m_clone_i16")) => code.push_str(&format!("o.check(*b{k} == a{k}.wrapping_add(1000), || format!(\"{what}: m_clone_i16 not applied: {{:?}} -> {{:?}}\", a{k}, b{k})); ")),
                    (_, Some("m_clone_string")) => code.push_str(&format!("o.check(*b{k} == format!(\"{{}}+\", a{k}), || format!(\"{what}: m_clone_string not applied: {{:?}} -> {{:?}}\", a{k}, b{k})); ")),
                    _ => code.push_str(&format!("o.check(Key::key(b{k}) == Key::key(a{k}), || format!(\"{what}: cloned field differs: key {{}} -> {{}}\", Key::key(a{k}), Key::key(b{k}))); ")),
                }
            }
            if bitwise {
                exp_clones = 0;
                exp_weird = 0;
            }
            code.push_str(&format!("o.check(dc == {exp_clones}, || format!(\"value {{i}}: Tracked::clone called {{dc}} times, expected {exp_clones}\")); "));
            code.push_str(&format!("o.check(dw == {exp_weird}, || format!(\"value {{i}}: Weird::clone called {{dw}} times, expected {exp_weird}\")); "));
            code
        },
        "o.check(false, || format!(\"value {i}: the clone is a different variant\"))",
    ));
    o.push_str("}\n");
    o.push_str("pub fn run(o: &mut Out) {\n    let xs = vals();\n");
    o.push_str("    for (i, x) in xs.iter().enumerate() {\n        let c0 = clones();\n        let w0 = weird_clones();\n        let c = x.clone();\n");
    o.push_str("        let (dc, dw) = (clones() - c0, weird_clones() - w0);\n        check_clone(o, i, x, &c, dc, dw);\n        o.tally(\"clones\", 1);\n    }\n");
    o.push_str("    let n = xs.len();\n    for i in 0..n {\n        for j in 0..n {\n");
    o.push_str("            let mut a = vals().swap_remove(i);\n            let b = &xs[j];\n            a.clone_from(b);\n");
    o.push_str("            let want = fp(&b.clone());\n            let got = fp(&a);\n");
    o.push_str("            o.check(got == want, || format!(\"after value {i}.clone_from(value {j}): {:?}, but value {j}.clone() is {:?}\", got, want));\n");
    o.push_str("            if variant_of(&xs[i]) != variant_of(b) { o.tally(\"cross_variant_clone_from\", 1); }\n            o.tally(\"clone_from_pairs\", 1);\n");
    o.push_str("        }\n    }\n");
    if copy {
        o.push_str(&format!("    o.check(impls!({ty}: Copy), || \"Copy was educed but the type is not Copy\".to_string());\n"));
    }
    o.push_str("}\n");
    let same_typed = s.variants.iter().any(|v| {
        let mut t: Vec<&str> = v.fields.iter().map(|f| f.ty.inst.as_str()).collect();
        let n = t.len();
        t.sort();
        t.dedup();
        t.len() < n
    });
    let mut classes = vec![];
    if same_typed {
        classes.push("same_typed_fields".to_string());
    }
    if copy && any_method {
        classes.push("copy_with_method".to_string());
    }
    if bitwise {
        classes.push("bitwise".to_string());
    }
    if uses_ty(s, "Tracked") {
        classes.push("tracked_fields".to_string());
    }
    if uses_ty(s, "Weird") {
        classes.push("weird_fields".to_string());
    }
    if any_method {
        classes.push("clone_method".to_string());
    }
    let nt = same_typed || s.variants.len() >= 2 || (copy && any_method);
    Some(Rendered { observer: o, nontrivial: nt, need_tallies: vec!["clone_from_pairs"], classes })
}

pub fn run(ctx: &Ctx) -> i32 {
    crate::props::behave::run(ctx, &behaviour())
}

pub fn behaviour() -> Behaviour {
    Behaviour {
        prop: "C07",
        rule: "structs, enums and unions with Clone educed (with and without Copy) and Clone(method) fields; instrumented field types: Tracked (records \
               provenance and counts Clone::clone / clone_from calls) and Weird (Copy, but its Clone::clone returns a different value); for every value \
               the clone must be the same variant with each field produced exactly once by its method or by the field type's Clone; for every ordered pair \
               a.clone_from(&b) must be indistinguishable from b.clone(); with Copy the type must be Copy and, without a method, Weird fields come back \
               bit-identical with zero user Clone calls; non-trivial = two same-typed fields, several variants (cross-variant clone_from) or Copy together \
               with a method; distinct by definition hash",
        salt: 0xC07,
        cfg,
        adjust,
        render,
        quick: 7000,
        thorough: 20000,
        batch: 25,
        assumptions: &["generation counters are excluded from 'indistinguishable' because clone_from may legitimately reuse storage"],
        miri_units: 0,
        extra: None,
    }
}
