//! C01 — every accepted derive request expands to code that compiles; documented forms are accepted.
use serde_json::json;

use crate::check::{self, Ctx, Failure, RVerdict, Report};
use crate::dna::Dna;
use crate::engine::{self, Expansion, Unit};
use crate::gen::{self, GenCfg};
use crate::props::common::*;
use crate::spec::*;

pub fn cfg() -> GenCfg {
    let mut c = GenCfg::full();
    c.unsized_tail = true;
    c.respell_pct = 6;
    c.wide_pct = 2;
    c
}

pub fn unit_of(spec: &TypeSpec) -> Unit {
    let body = format!("{}{}{}", std_header(), spec.render_def(), spec.render_support_impls());
    Unit { body, has_run: false }
}

pub fn run(ctx: &Ctx) -> i32 {
    if ctx.replay.is_some() {
        return check::replay_unit(ctx);
    }
    let known = check::load_known();
    let mut rep = Report::new(
        ctx,
        "specs built by construction from the documented attribute grammar (kind x shape x generics x repr x trait subset x \
         type/variant/field attributes x spelling); non-trivial = carries a field- or variant-level attribute, generics, a repr, \
         or is an empty/single-variant enum; distinct by hash of the rendered definition",
    );
    rep.assumptions.push("rustc 1.95 on x86-64 is the judge of 'compiles without errors or warnings'".into());
    rep.assumptions.push("most lints are not reported inside proc-macro output, so the warning half mainly guards always-reported lints".into());
    let so = match engine::build_proc_macro() {
        Ok(s) => s,
        Err(e) => {
            rep.inconclusive.push(e.0);
            return rep.finish();
        },
    };
    let cfg = cfg();
    let n = ctx.scale(12000, 40000);
    let trees = check::draw(ctx.seed, 0xC01, n, 500);
    let mut specs: Vec<(usize, TypeSpec, Vec<&'static str>)> = Vec::new();
    for (i, t) in trees.iter().enumerate() {
        let dna = t.current();
        let mut d = Dna::new(&dna);
        let b = gen::build(&mut d, &cfg);
        specs.push((i, b.spec, b.classes));
    }
    // stage 1: in-process acceptance
    let mut units: Vec<Unit> = Vec::new();
    let mut unit_idx: Vec<usize> = Vec::new();
    for (i, spec, classes) in &specs {
        rep.evaluations += 1;
        for c in classes {
            rep.class(c);
        }
        for a in &spec.traits {
            rep.class(&format!("trait_{}", a.tr.name()));
        }
        let def = spec.render_def_with("", true);
        let h = fnv64(&def);
        let nt = has_inner_attrs(spec) || !spec.gens.is_empty() || spec.repr.is_some() || (spec.kind == Kind::Enum && spec.variants.len() <= 1);
        if nt {
            rep.nontrivial.insert(h);
        }
        if *i < 3 {
            rep.sample(json!(spec.render_def()));
        }
        match engine::expand_src(&def) {
            Expansion::Ok(_) => {
                units.push(unit_of(spec));
                unit_idx.push(*i);
            },
            Expansion::Err(m) => {
                rep.count("refused_in_process", 1);
                let m = format!("documented request refused: {m}");
                if let Some(k) = crate::known::explain(&known, "C01", spec, &m) {
                    rep.known(&k.id, &k.what);
                    continue;
                }
                rep.violations.push(Failure {
                    msg: m,
                    dna: trees[*i].current(),
                    variant: "accept".into(),
                    source: spec.render_def(),
                    unit_body: Some(unit_of(spec).body),
                });
            },
            Expansion::Panic(m) => {
                // fallback-printer caveat: confirm through rustc
                rep.count("panic_in_process", 1);
                let _ = m;
                units.push(unit_of(spec));
                unit_idx.push(*i);
            },
            Expansion::Unparsable(m) => rep.inconclusive.push(format!("generator produced an unparsable definition: {m}\n{def}")),
        }
    }
    // stage 2: real rustc
    let (outs, stray) = check::eval_units("C01", &units, &so, 60, false);
    for s in stray.iter().take(3) {
        rep.inconclusive.push(format!("diagnostic outside any generated type: {s}"));
    }
    for (k, o) in outs.iter().enumerate() {
        let i = unit_idx[k];
        if let RVerdict::Fail(m) = check::judge_default(o, false) {
            if let Some(k) = crate::known::explain(&known, "C01", &specs[i].1, &m) {
                rep.known(&k.id, &k.what);
                continue;
            }
            rep.violations.push(Failure {
                msg: m,
                dna: trees[i].current(),
                variant: "compile".into(),
                source: specs[i].1.render_def(),
                unit_body: Some(units[k].body.clone()),
            });
        }
    }
    rep.count("compiled_units", units.len() as u64);
    check::clean_work("C01");
    rep.finish()
}
