//! A stream of generator choices. proptest generates and shrinks the `Vec<u16>`; every random
//! decision of a spec builder is a monotone function of the next element, and an exhausted or
//! all-zero stream always selects the simplest alternative, so shrinking the vector shrinks the
//! spec. The same builders can be driven from fuzzer bytes.

pub struct Dna<'a> {
    data: &'a [u16],
    pos: usize,
}

impl<'a> Dna<'a> {
    pub fn new(data: &'a [u16]) -> Self {
        Dna { data, pos: 0 }
    }
    pub fn used(&self) -> usize {
        self.pos
    }
    pub fn raw(&mut self) -> u16 {
        let v = self.data.get(self.pos).copied().unwrap_or(0);
        self.pos += 1;
        v
    }
    /// uniform in 0..n, monotone in the underlying value; 0 when exhausted
    pub fn pick(&mut self, n: usize) -> usize {
        if n <= 1 {
            // still consume, so that the stream layout does not depend on n
            let _ = self.raw();
            return 0;
        }
        (self.raw() as usize * n) >> 16
    }
    /// true with probability pct/100; false when exhausted
    pub fn chance(&mut self, pct: u32) -> bool {
        let v = self.raw() as u32;
        v >= 65536 - (65536 * pct.min(100)) / 100 && pct > 0
    }
    pub fn byte(&mut self) -> u8 {
        (self.raw() >> 8) as u8
    }
    /// weighted choice; index 0 should be the simplest alternative
    pub fn weighted(&mut self, w: &[u32]) -> usize {
        let total: u32 = w.iter().sum();
        if total == 0 {
            let _ = self.raw();
            return 0;
        }
        let mut x = ((self.raw() as u64 * total as u64) >> 16) as u32;
        for (i, wi) in w.iter().enumerate() {
            if x < *wi {
                return i;
            }
            x -= wi;
        }
        w.len() - 1
    }
    pub fn choose<'b, T>(&mut self, v: &'b [T]) -> &'b T {
        &v[self.pick(v.len())]
    }
}
