//! Fault operators for C13: each turns a valid request into one the statement says must be
//! refused. An operator returns `None` when it does not apply to the given spec.
#![allow(dead_code)]

use crate::dna::Dna;
use crate::gen::GenCfg;
use crate::spec::*;

pub const N_OPS: usize = 14;

pub struct Fault {
    pub op: usize,
    pub what: String,
    /// (level, position class, trait) for the non-triviality accounting
    pub class: String,
}

fn pos_class(i: usize, n: usize) -> &'static str {
    if n <= 1 {
        "only"
    } else if i == 0 {
        "first"
    } else if i + 1 == n {
        "last"
    } else {
        "middle"
    }
}

/// generator configuration under which operator `op` is applicable
pub fn cfg_for(op: usize, d: &mut Dna) -> GenCfg {
    let mut c = GenCfg::full();
    c.attr_pct = 25;
    match op {
        3 => {
            c.kinds = vec![Kind::Struct, Kind::Enum];
            c.must = vec![if d.chance(50) { Tr::Ord } else { Tr::PartialOrd }];
            c.min_fields = 2;
            c.min_variants = 1;
        },
        4 => {
            c.kinds = vec![Kind::Struct, Kind::Enum];
            c.must = vec![Tr::Into];
            c.min_variants = 1;
        },
        5 | 6 => {
            let which = d.pick(4);
            match which {
                0 => {
                    c.kinds = vec![Kind::Enum];
                    c.must = vec![Tr::Default];
                    c.min_variants = 2;
                    c.type_expr = false;
                },
                1 => {
                    c.kinds = vec![Kind::Union];
                    c.must = vec![Tr::Default];
                    c.min_fields = 2;
                    c.type_expr = false;
                },
                2 => {
                    c.kinds = vec![Kind::Struct, Kind::Enum];
                    c.must = vec![Tr::Deref];
                    if d.chance(50) {
                        c.must.push(Tr::DerefMut);
                    }
                    c.min_fields = 2;
                    c.min_variants = 1;
                },
                _ => {
                    c.kinds = vec![Kind::Struct, Kind::Enum];
                    c.must = vec![Tr::Into];
                    c.min_fields = 2;
                    c.min_variants = 1;
                },
            }
        },
        10 => {
            // now and then the shapes of the "Default designation under a type-level expression" sub-operator
            match d.pick(8) {
                0 => {
                    c.kinds = vec![Kind::Union];
                    c.must = vec![Tr::Default];
                    c.generics = false;
                },
                1 => {
                    c.kinds = vec![Kind::Struct, Kind::Enum];
                    c.must = vec![Tr::Default];
                    c.generics = false;
                    c.min_variants = 1;
                },
                _ => {},
            }
        },
        11 | 12 => {
            c.kinds = vec![Kind::Union];
            if op == 11 {
                c.must = vec![*d.choose(&[Tr::Debug, Tr::PartialEq, Tr::Hash])];
            }
        },
        13 => {
            c.kinds = vec![Kind::Enum];
            c.must = match d.pick(3) {
                0 => vec![Tr::Deref],
                1 => vec![Tr::Deref, Tr::DerefMut],
                _ => vec![Tr::Into],
            };
            c.min_variants = 1;
            c.type_expr = false;
        },
        14 => {
            c.kinds = vec![Kind::Struct, Kind::Enum];
            c.must = vec![Tr::Debug];
        },
        _ => {},
    }
    c
}

fn educed(s: &TypeSpec) -> Vec<Tr> {
    let mut v: Vec<Tr> = s.traits.iter().map(|a| a.tr).collect();
    v.dedup();
    v
}

/// a syntactically plausible field-level attribute for trait `t` (used for "not educed" and duplicates)
fn plausible_field_attr(t: Tr, d: &mut Dna) -> String {
    match t {
        Tr::Debug => ["Debug(ignore)", "Debug = false", "Debug(method(m_fmt_tag))"][d.pick(3)].to_string(),
        Tr::Clone => "Clone(method(m_clone_std))".to_string(),
        Tr::Copy => "Copy".to_string(),
        Tr::PartialEq => ["PartialEq(ignore)", "PartialEq = false", "PartialEq(method = m_eq_le)"][d.pick(3)].to_string(),
        Tr::Eq => ["Eq(ignore)", "Eq = false"][d.pick(2)].to_string(),
        Tr::PartialOrd => ["PartialOrd(ignore)", "PartialOrd(rank = 3)", "PartialOrd = false"][d.pick(3)].to_string(),
        Tr::Ord => ["Ord(ignore)", "Ord(rank = 3)", "Ord = false"][d.pick(3)].to_string(),
        Tr::Hash => ["Hash(ignore)", "Hash = false", "Hash(method(m_hash_tag))"][d.pick(3)].to_string(),
        Tr::Default => ["Default = 1", "Default(expression = 1)", "Default"][d.pick(3)].to_string(),
        Tr::Deref => "Deref".to_string(),
        Tr::DerefMut => "DerefMut".to_string(),
        Tr::Into => "Into(u8)".to_string(),
    }
}

fn plausible_variant_attr(t: Tr, d: &mut Dna) -> String {
    match t {
        Tr::Debug => ["Debug(name = false)", "Debug = Other", "Debug(named_field = true)"][d.pick(3)].to_string(),
        Tr::Default => "Default".to_string(),
        t => format!("{}(bound(*))", t.name()),
    }
}

pub fn apply(op: usize, s: &mut TypeSpec, d: &mut Dna) -> Option<Fault> {
    let traits = educed(s);
    let nv = s.variants.len();
    let kind = s.kind;
    let mk = |op: usize, what: String, class: String| Some(Fault { op, what, class });
    match op {
        // ---------------------------------------------------------------- O1 a trait twice
        1 => {
            let level = d.pick(3);
            if level == 0 {
                let cands: Vec<&TAttr> = s.traits.iter().filter(|a| a.tr != Tr::Into).collect();
                if cands.is_empty() {
                    return None;
                }
                let a = (*d.choose(&cands)).clone();
                let t = a.tr;
                // the second occurrence: bare flag or a copy of the first, same or separate attribute
                let second = if d.chance(50) && !(kind == Kind::Union && matches!(t, Tr::Debug | Tr::PartialEq | Tr::Hash)) { TAttr::flag(t) } else { a };
                if d.chance(50) {
                    s.raw.push(format!("#[educe({})]", render_tattr(&second)));
                } else {
                    let at = d.pick(s.traits.len() + 1);
                    s.traits.insert(at, second);
                }
                return mk(1, format!("trait {} twice at type level", t.name()), format!("type/-/{}", t.name()));
            }
            if level == 1 && kind == Kind::Enum && nv > 0 {
                let vi = d.pick(nv);
                let t = if s.has(Tr::Debug) && d.chance(70) { Tr::Debug } else if s.has(Tr::Default) && s.attr(Tr::Default).and_then(|a| a.expr()).is_none() { Tr::Default } else { return None };
                let one = if t == Tr::Debug { "Debug(name = A)".to_string() } else { "Default".to_string() };
                let two = if t == Tr::Debug { ["Debug(name = A)", "Debug = B", "Debug(named_field = true)"][d.pick(3)].to_string() } else { "Default".to_string() };
                let v = &mut s.variants[vi];
                v.attrs.retain(|a| a.tr != t);
                if d.chance(50) {
                    v.raw.push(format!("#[educe({one}, {two})]"));
                } else {
                    v.raw.push(format!("#[educe({one})]"));
                    v.raw.push(format!("#[educe({two})]"));
                }
                return mk(1, format!("trait {} twice on variant {}", t.name(), vi), format!("variant/{}/{}", pos_class(vi, nv), t.name()));
            }
            // field level
            let with_fields: Vec<usize> = (0..nv).filter(|i| !s.variants[*i].fields.is_empty()).collect();
            if with_fields.is_empty() || kind == Kind::Union {
                return None;
            }
            let vi = *d.choose(&with_fields);
            let nf = s.variants[vi].fields.len();
            let fi = d.pick(nf);
            let cands: Vec<Tr> = traits.iter().copied().filter(|t| matches!(t, Tr::Debug | Tr::PartialEq | Tr::Hash | Tr::PartialOrd | Tr::Ord)).filter(|t| !(*t == Tr::PartialOrd && s.has(Tr::Ord))).collect();
            if cands.is_empty() {
                return None;
            }
            let t = *d.choose(&cands);
            let f = &mut s.variants[vi].fields[fi];
            f.attrs.retain(|a| !(a.tr == t || (t == Tr::PartialEq && a.tr == Tr::Eq) || (t == Tr::Ord && a.tr == Tr::PartialOrd)));
            let one = format!("{}(ignore = false)", t.name());
            let two = format!("{}(ignore = false)", t.name());
            if d.chance(50) {
                f.raw.push(format!("#[educe({one}, {two})]"));
            } else {
                f.raw.push(format!("#[educe({one})]"));
                f.raw.push(format!("#[educe({two})]"));
            }
            mk(1, format!("trait {} twice on field {}.{}", t.name(), vi, fi), format!("field/{}/{}", pos_class(fi, nf), t.name()))
        },
        // ---------------------------------------------------------------- O2 a parameter twice (incl. alias)
        2 => {
            let level = d.pick(3);
            if level == 0 {
                let idx: Vec<usize> = (0..s.traits.len()).filter(|i| s.traits[*i].params.iter().any(|(p, _)| !matches!(p, TParam::Unsafe))).collect();
                if idx.is_empty() {
                    // add a doubled parameter to Debug or Default
                    if let Some(a) = s.traits.iter_mut().find(|a| a.tr == Tr::Default) {
                        a.params.push((TParam::New(true), d.byte()));
                        a.params.push((TParam::New(true), d.byte()));
                        return mk(2, "`new` twice".into(), "type/-/Default".into());
                    }
                    return None;
                }
                let ai = *d.choose(&idx);
                let a = &mut s.traits[ai];
                let pidx: Vec<usize> = (0..a.params.len()).filter(|i| !matches!(a.params[*i].0, TParam::Unsafe)).collect();
                let pi = *d.choose(&pidx);
                let (p, sp) = a.params[pi].clone();
                // flip the alias bit so that name/rename and expression/expr pairs occur
                let sp2 = if d.chance(50) { sp ^ 0x80 } else { d.byte() };
                a.sp &= !1; // no shorthand form: both parameters must be spelled out
                a.params.push((p.clone(), sp2));
                return mk(2, format!("parameter {:?} twice on {}", p, a.tr.name()), format!("type/-/{}", a.tr.name()));
            }
            if level == 1 && kind == Kind::Enum && s.has(Tr::Debug) && nv > 0 {
                let vi = d.pick(nv);
                let v = &mut s.variants[vi];
                v.attrs.retain(|a| a.tr != Tr::Debug);
                let forms = ["Debug(name = A, rename = B)", "Debug(name(A), name(A))", "Debug(named_field = true, named_field = true)", "Debug(rename = false, name = false)"];
                v.raw.push(format!("#[educe({})]", forms[d.pick(4)]));
                return mk(2, format!("variant parameter twice on variant {vi}"), format!("variant/{}/Debug", pos_class(vi, nv)));
            }
            let with_fields: Vec<usize> = (0..nv).filter(|i| !s.variants[*i].fields.is_empty()).collect();
            if with_fields.is_empty() || kind == Kind::Union {
                return None;
            }
            let vi = *d.choose(&with_fields);
            let nf = s.variants[vi].fields.len();
            let fi = d.pick(nf);
            let s_has_ord = s.has(Tr::Ord);
            let f = &mut s.variants[vi].fields[fi];
            let idx: Vec<usize> = (0..f.attrs.len()).filter(|i| !f.attrs[*i].params.is_empty()).collect();
            if idx.is_empty() {
                // no parameterised attribute on this field: write a doubled one for a trait that takes field parameters
                let cands: Vec<Tr> = traits.iter().copied().filter(|t| matches!(t, Tr::Debug | Tr::PartialEq | Tr::Hash | Tr::PartialOrd | Tr::Ord)).filter(|t| !(*t == Tr::PartialOrd && s_has_ord)).collect();
                if cands.is_empty() {
                    return None;
                }
                let t = *d.choose(&cands);
                let forms = ["ignore, ignore", "ignore = false, ignore(false)", "ignore(false), ignore"];
                let form = forms[d.pick(forms.len())];
                f.attrs.retain(|a| !(a.tr == t || (t == Tr::PartialEq && a.tr == Tr::Eq) || (t == Tr::Ord && a.tr == Tr::PartialOrd)));
                f.raw.push(format!("#[educe({}({form}))]", t.name()));
                return mk(2, format!("`{form}` on field {vi}.{fi} for {}", t.name()), format!("field/{}/{}", pos_class(fi, nf), t.name()));
            }
            let ai = *d.choose(&idx);
            let a = &mut f.attrs[ai];
            let pi = d.pick(a.params.len());
            let (p, sp) = a.params[pi].clone();
            let sp2 = if d.chance(50) { sp ^ 0x80 } else { d.byte() };
            a.sp &= !1;
            a.params.push((p.clone(), sp2));
            mk(2, format!("parameter {:?} twice on field {}.{} ({})", p, vi, fi, a.tr.name()), format!("field/{}/{}", pos_class(fi, nf), a.tr.name()))
        },
        // ---------------------------------------------------------------- O3 same rank twice
        3 => {
            let ord_name = if s.has(Tr::Ord) { if s.has(Tr::PartialOrd) && d.chance(40) { Tr::PartialOrd } else { Tr::Ord } } else if s.has(Tr::PartialOrd) { Tr::PartialOrd } else { return None };
            let cands: Vec<usize> = (0..nv).filter(|i| s.variants[*i].fields.len() >= 2).collect();
            if cands.is_empty() {
                return None;
            }
            let vi = *d.choose(&cands);
            let nf = s.variants[vi].fields.len();
            let a = d.pick(nf);
            let mut b = d.pick(nf - 1);
            if b >= a {
                b += 1;
            }
            // second form: field `a` takes the explicit rank `isize::MIN + b` while field `b` (before or after it) keeps that
            // value as its default rank
            let is_ord = |x: &FAttr| x.tr == Tr::Ord || x.tr == Tr::PartialOrd;
            if d.chance(35) {
                {
                    let fb = &mut s.variants[vi].fields[b];
                    let method = fb.method(Tr::Ord).map(|m| m.to_string());
                    fb.attrs.retain(|x| !is_ord(x));
                    if let Some(m) = method {
                        fb.attrs.push(FAttr { tr: ord_name, into_ty: None, params: vec![(FParam::Method(m), d.byte())], sp: 0 });
                    }
                }
                let r = isize::MIN as i64 + b as i64;
                let fa = &mut s.variants[vi].fields[a];
                let method = fa.method(Tr::Ord).map(|m| m.to_string());
                fa.attrs.retain(|x| !is_ord(x));
                let mut ps = vec![(FParam::Rank(r), d.byte())];
                if let Some(m) = method {
                    ps.push((FParam::Method(m), d.byte()));
                }
                fa.attrs.push(FAttr { tr: ord_name, into_ty: None, params: ps, sp: 0 });
                let order = if a < b { "before" } else { "after" };
                return mk(3, format!("explicit rank isize::MIN+{b} on field {a} of variant {vi}, {order} field {b} that uses it as its default"), format!("field/default-{order}/{}", ord_name.name()));
            }
            let r: i64 = [0, -3, 5, 7, -1][d.pick(5)];
            for fi in [a, b] {
                let f = &mut s.variants[vi].fields[fi];
                // keep a method if present, drop ignore and old rank
                let method = f.method(Tr::Ord).map(|m| m.to_string());
                f.attrs.retain(|x| !(x.tr == Tr::Ord || x.tr == Tr::PartialOrd));
                let mut ps = vec![(FParam::Rank(r), d.byte())];
                if let Some(m) = method {
                    ps.push((FParam::Method(m), d.byte()));
                }
                f.attrs.push(FAttr { tr: ord_name, into_ty: None, params: ps, sp: 0 });
            }
            mk(3, format!("rank {r} on fields {a} and {b} of variant {vi}"), format!("field/{}+{}/{}", pos_class(a, nf), pos_class(b, nf), ord_name.name()))
        },
        // ---------------------------------------------------------------- O4 an Into target twice
        4 => {
            let targets: Vec<String> = s.into_targets().iter().filter_map(|a| a.into_ty.clone()).collect();
            if targets.is_empty() {
                return None;
            }
            let t = d.choose(&targets).clone();
            match d.pick(3) {
                0 => {
                    let extra = TAttr { tr: Tr::Into, into_ty: Some(t.clone()), params: vec![], sp: 0 };
                    if d.chance(50) {
                        s.raw.push(format!("#[educe({})]", render_tattr(&extra)));
                    } else {
                        let at = d.pick(s.traits.len() + 1);
                        s.traits.insert(at, extra);
                    }
                    mk(4, format!("Into({t}) twice at type level"), "type/-/Into".into())
                },
                1 => {
                    // one field names the target twice
                    let with_fields: Vec<usize> = (0..nv).filter(|i| !s.variants[*i].fields.is_empty()).collect();
                    if with_fields.is_empty() {
                        return None;
                    }
                    let vi = *d.choose(&with_fields);
                    let nf = s.variants[vi].fields.len();
                    // the field designated for `t`, else any
                    let fi = (0..nf).find(|i| s.variants[vi].fields[*i].into_attr(&t).is_some()).unwrap_or_else(|| d.pick(nf));
                    let f = &mut s.variants[vi].fields[fi];
                    let m = crate::types::into_method(&t);
                    f.attrs.retain(|a| !(a.tr == Tr::Into && a.into_ty.as_deref() == Some(t.as_str())));
                    if d.chance(50) {
                        f.raw.push(format!("#[educe(Into({t}, method({m})), Into({t}, method({m})))]"));
                    } else {
                        // the same target in two separate attributes of the field
                        f.raw.push(format!("#[educe(Into({t}, method({m})))]"));
                        f.raw.push(format!("#[educe(Into({t}, method({m})))]"));
                    }
                    mk(4, format!("Into({t}) twice on field {vi}.{fi}"), format!("field/{}/Into", pos_class(fi, nf)))
                },
                _ => {
                    // two fields of one variant marked for the same target
                    let cands: Vec<usize> = (0..nv).filter(|i| s.variants[*i].fields.len() >= 2).collect();
                    if cands.is_empty() {
                        return None;
                    }
                    let vi = *d.choose(&cands);
                    let nf = s.variants[vi].fields.len();
                    let m = crate::types::into_method(&t);
                    let a = d.pick(nf);
                    let mut b = d.pick(nf - 1);
                    if b >= a {
                        b += 1;
                    }
                    for fi in [a, b] {
                        let f = &mut s.variants[vi].fields[fi];
                        f.attrs.retain(|x| !(x.tr == Tr::Into && x.into_ty.as_deref() == Some(t.as_str())));
                        f.raw.push(format!("#[educe(Into({t}, method({m})))]"));
                    }
                    // other fields must not be marked for t any more
                    for (fi, f) in s.variants[vi].fields.iter_mut().enumerate() {
                        if fi != a && fi != b {
                            f.attrs.retain(|x| !(x.tr == Tr::Into && x.into_ty.as_deref() == Some(t.as_str())));
                        }
                    }
                    mk(4, format!("two fields of variant {vi} marked for Into({t})"), format!("field/{}+{}/Into", pos_class(a, nf), pos_class(b, nf)))
                },
            }
        },
        // ---------------------------------------------------------------- O5 missing designation
        5 => {
            if kind == Kind::Enum && s.has(Tr::Default) && nv >= 2 && s.attr(Tr::Default).and_then(|a| a.expr()).is_none() {
                for v in s.variants.iter_mut() {
                    v.attrs.retain(|a| a.tr != Tr::Default);
                    // field expressions are only legal in the default variant
                    for f in v.fields.iter_mut() {
                        f.attrs.retain(|a| a.tr != Tr::Default);
                    }
                }
                return mk(5, "Default enum without a marked variant".into(), "variant/-/Default".into());
            }
            if kind == Kind::Union && s.has(Tr::Default) && s.variants[0].fields.len() >= 2 && s.attr(Tr::Default).and_then(|a| a.expr()).is_none() {
                for f in s.variants[0].fields.iter_mut() {
                    f.attrs.retain(|a| a.tr != Tr::Default);
                }
                return mk(5, "Default union without a marked field".into(), "field/-/Default".into());
            }
            if s.has(Tr::Deref) {
                let cands: Vec<usize> = (0..nv).filter(|i| s.variants[*i].fields.len() >= 2).collect();
                if !cands.is_empty() {
                    let vi = *d.choose(&cands);
                    let t = if s.has(Tr::DerefMut) && d.chance(50) { Tr::DerefMut } else { Tr::Deref };
                    for f in s.variants[vi].fields.iter_mut() {
                        f.attrs.retain(|a| a.tr != t);
                    }
                    return mk(5, format!("{} without a marked field in variant {vi}", t.name()), format!("field/{}/{}", pos_class(vi, nv), t.name()));
                }
            }
            if s.has(Tr::Into) {
                let targets: Vec<String> = s.into_targets().iter().filter_map(|a| a.into_ty.clone()).collect();
                let t = d.choose(&targets).clone();
                let cands: Vec<usize> = (0..nv).filter(|i| s.variants[*i].fields.len() >= 2).collect();
                if cands.is_empty() {
                    return None;
                }
                let vi = *d.choose(&cands);
                let v = &mut s.variants[vi];
                for f in v.fields.iter_mut() {
                    f.attrs.retain(|a| !(a.tr == Tr::Into && a.into_ty.as_deref() == Some(t.as_str())));
                }
                // sometimes a third (fourth, ..) candidate: "not exactly one" must not be decided by parity
                if d.chance(40) {
                    if let Some(proto) = v.fields.iter().find(|f| f.ty.src == t).map(|f| f.ty.clone()) {
                        for f in v.fields.iter_mut() {
                            if f.attrs.is_empty() && f.default_expect.is_none() && f.ty.src != t && d.chance(60) {
                                f.ty = proto.clone();
                            }
                        }
                    }
                }
                let same = v.fields.iter().filter(|f| crate::known::into_key(&f.ty.src) == crate::known::into_key(&t)).count();
                // either no candidate at all or two same-typed ones; exactly one would be found automatically
                if same == 1 {
                    return None;
                }
                return mk(5, format!("Into({t}) with {same} same-typed candidates and no marker in variant {vi}"), format!("field/{}/Into", if same == 0 { "none" } else { "ambiguous" }));
            }
            None
        },
        // ---------------------------------------------------------------- O6 duplicated designation
        6 => {
            if kind == Kind::Enum && s.has(Tr::Default) && nv >= 2 && s.attr(Tr::Default).and_then(|a| a.expr()).is_none() {
                let marked = s.variants.iter().position(|v| v.attrs.iter().any(|a| a.tr == Tr::Default));
                let Some(m) = marked else { return None };
                let mut o = d.pick(nv - 1);
                if o >= m {
                    o += 1;
                }
                s.variants[o].attrs.push(TAttr::flag(Tr::Default));
                return mk(6, format!("variants {m} and {o} both marked Default"), format!("variant/{}/Default", pos_class(o, nv)));
            }
            if kind == Kind::Union && s.has(Tr::Default) && s.variants[0].fields.len() >= 2 && s.attr(Tr::Default).and_then(|a| a.expr()).is_none() {
                let nf = s.variants[0].fields.len();
                let marked = s.variants[0].fields.iter().position(|f| f.attrs.iter().any(|a| a.tr == Tr::Default));
                let Some(m) = marked else { return None };
                let mut o = d.pick(nf - 1);
                if o >= m {
                    o += 1;
                }
                s.variants[0].fields[o].attrs.push(FAttr { tr: Tr::Default, into_ty: None, params: vec![], sp: 0 });
                return mk(6, format!("union fields {m} and {o} both marked Default"), format!("field/{}/Default", pos_class(o, nf)));
            }
            if s.has(Tr::Deref) {
                let t = if s.has(Tr::DerefMut) && d.chance(50) { Tr::DerefMut } else { Tr::Deref };
                let cands: Vec<usize> = (0..nv).filter(|i| s.variants[*i].fields.len() >= 2 && s.variants[*i].fields.iter().any(|f| f.is_marker(t))).collect();
                if cands.is_empty() {
                    return None;
                }
                let vi = *d.choose(&cands);
                let nf = s.variants[vi].fields.len();
                let m = s.variants[vi].fields.iter().position(|f| f.is_marker(t)).unwrap();
                let mut o = d.pick(nf - 1);
                if o >= m {
                    o += 1;
                }
                s.variants[vi].fields[o].attrs.push(FAttr { tr: t, into_ty: None, params: vec![], sp: 0 });
                return mk(6, format!("fields {m} and {o} of variant {vi} both marked {}", t.name()), format!("field/{}/{}", pos_class(o, nf), t.name()));
            }
            None
        },
        // ---------------------------------------------------------------- O7 attribute for a trait that is not educed
        7 => {
            let missing: Vec<Tr> = ALL_TRAITS.iter().copied().filter(|t| !traits.contains(t)).collect();
            if missing.is_empty() {
                return None;
            }
            let t = *d.choose(&missing);
            let at_variant = kind == Kind::Enum && nv > 0 && d.chance(35);
            if at_variant {
                let vi = d.pick(nv);
                let a = plausible_variant_attr(t, d);
                s.variants[vi].raw.push(format!("#[educe({a})]"));
                return mk(7, format!("variant {vi} carries {a} but {} is not educed", t.name()), format!("variant/{}/{}", pos_class(vi, nv), t.name()));
            }
            let with_fields: Vec<usize> = (0..nv).filter(|i| !s.variants[*i].fields.is_empty()).collect();
            if with_fields.is_empty() {
                return None;
            }
            let vi = *d.choose(&with_fields);
            let nf = s.variants[vi].fields.len();
            let fi = d.pick(nf);
            let a = plausible_field_attr(t, d);
            s.variants[vi].fields[fi].raw.push(format!("#[educe({a})]"));
            mk(7, format!("field {vi}.{fi} carries {a} but {} is not educed", t.name()), format!("field/{}/{}", pos_class(fi, nf), t.name()))
        },
        // ---------------------------------------------------------------- O8 unknown trait
        8 => {
            let names = ["Foo", "debug", "Debugg", "foo::Bar", "::core::fmt::Debug", "PartialEqq", "Display", "Send", "std::clone::Clone"];
            let n = names[d.pick(names.len())];
            let form = match d.pick(3) {
                0 => n.to_string(),
                1 => format!("{n}(ignore)"),
                _ => format!("{n} = false"),
            };
            let level = d.pick(3);
            if level == 0 {
                if d.chance(50) {
                    s.raw.push(format!("#[educe({form})]"));
                } else {
                    s.raw.insert(0, format!("#[educe({form})]"));
                }
                return mk(8, format!("unknown trait {form} at type level"), "type/-/unknown".into());
            }
            if level == 1 && kind == Kind::Enum && nv > 0 {
                let vi = d.pick(nv);
                s.variants[vi].raw.push(format!("#[educe({form})]"));
                return mk(8, format!("unknown trait {form} on variant {vi}"), format!("variant/{}/unknown", pos_class(vi, nv)));
            }
            let with_fields: Vec<usize> = (0..nv).filter(|i| !s.variants[*i].fields.is_empty()).collect();
            if with_fields.is_empty() {
                return None;
            }
            let vi = *d.choose(&with_fields);
            let nf = s.variants[vi].fields.len();
            let fi = d.pick(nf);
            s.variants[vi].fields[fi].raw.push(format!("#[educe({form})]"));
            mk(8, format!("unknown trait {form} on field {vi}.{fi}"), format!("field/{}/unknown", pos_class(fi, nf)))
        },
        // ---------------------------------------------------------------- O9 unknown parameter
        9 => {
            let params = ["foo", "ignor", "nme = X", "bounds(*)", "rank2 = 1", "skip", "methd(m_eq_le)", "expression2 = 1"];
            let pr = params[d.pick(params.len())];
            let level = d.pick(3);
            if level == 0 {
                let idx: Vec<usize> = (0..s.traits.len()).filter(|i| !matches!(s.traits[*i].tr, Tr::Into)).collect();
                if idx.is_empty() {
                    return None;
                }
                let ai = *d.choose(&idx);
                let t = s.traits[ai].tr;
                let uns = if kind == Kind::Union && matches!(t, Tr::Debug | Tr::PartialEq | Tr::Hash) { "unsafe, " } else { "" };
                s.traits.remove(ai);
                s.raw.push(format!("#[educe({}({uns}{pr}))]", t.name()));
                return mk(9, format!("unknown parameter `{pr}` on {} at type level", t.name()), format!("type/-/{}", t.name()));
            }
            if level == 1 && kind == Kind::Enum && nv > 0 && s.has(Tr::Debug) {
                let vi = d.pick(nv);
                s.variants[vi].attrs.retain(|a| a.tr != Tr::Debug);
                s.variants[vi].raw.push(format!("#[educe(Debug({pr}))]"));
                return mk(9, format!("unknown parameter `{pr}` on variant {vi}"), format!("variant/{}/Debug", pos_class(vi, nv)));
            }
            let with_fields: Vec<usize> = (0..nv).filter(|i| !s.variants[*i].fields.is_empty()).collect();
            if with_fields.is_empty() {
                return None;
            }
            let cands: Vec<Tr> = traits.iter().copied().filter(|t| !matches!(t, Tr::Into)).collect();
            if cands.is_empty() {
                return None;
            }
            let t = *d.choose(&cands);
            let vi = *d.choose(&with_fields);
            let nf = s.variants[vi].fields.len();
            let fi = d.pick(nf);
            let f = &mut s.variants[vi].fields[fi];
            f.attrs.retain(|a| a.tr != t);
            f.raw.push(format!("#[educe({}({pr}))]", t.name()));
            mk(9, format!("unknown parameter `{pr}` on field {vi}.{fi} for {}", t.name()), format!("field/{}/{}", pos_class(fi, nf), t.name()))
        },
        // ---------------------------------------------------------------- O10 parameter not accepted at that position
        10 => {
            let with_fields: Vec<usize> = (0..nv).filter(|i| !s.variants[*i].fields.is_empty()).collect();
            let first = d.pick(7);
            let default_expr_possible = s.has(Tr::Default)
                && !with_fields.is_empty()
                && (s.attr(Tr::Default).and_then(|a| a.expr()).is_some() || (kind == Kind::Union && s.gens.is_empty()));
            // the first applicable sub-operator, starting from a generated one
            let choice = (0..7)
                .map(|k| (first + k) % 7)
                .find(|c| match c {
                    6 => default_expr_possible,
                    0 => s.has(Tr::Debug) && kind != Kind::Union && (0..nv).any(|i| !s.variants[i].fields.is_empty() && !crate::known::debug_variant_view(s, i).1),
                    1 => kind == Kind::Union && traits.iter().any(|t| matches!(t, Tr::Debug | Tr::PartialEq | Tr::Hash | Tr::Clone)),
                    2 => kind == Kind::Enum && nv > 0 && traits.iter().any(|t| !matches!(t, Tr::Into | Tr::Deref | Tr::DerefMut)),
                    3 => !with_fields.is_empty() && kind != Kind::Union,
                    4 => kind != Kind::Union,
                    _ => s.has(Tr::Debug) && kind != Kind::Struct,
                })
                .unwrap_or(first);
            match choice {
                // a field-level Default designation although the value comes from a type-level expression
                6 if default_expr_possible => {
                    if s.attr(Tr::Default).and_then(|a| a.expr()).is_none() {
                        // (unions are not generated with a type-level expression: write one for the first field)
                        let f0 = &s.variants[0].fields[0];
                        let e = format!("{} {{ {}: {} }}", s.name, f0.name.clone().unwrap_or_default(), f0.ty.vals[0]);
                        for f in s.variants[0].fields.iter_mut() {
                            f.attrs.retain(|a| a.tr != Tr::Default);
                            f.default_expect = None;
                        }
                        let sp = d.byte();
                        if let Some(a) = s.traits.iter_mut().find(|a| a.tr == Tr::Default) {
                            a.params.push((TParam::Expr(e), sp));
                        }
                    }
                    let vi = *d.choose(&with_fields);
                    let nf = s.variants[vi].fields.len();
                    let fi = d.pick(nf);
                    let f = &mut s.variants[vi].fields[fi];
                    let v = f.ty.vals[0].clone();
                    let form = match d.pick(4) {
                        0 => "Default".to_string(),
                        1 => format!("Default = {v}"),
                        2 => format!("Default(expression = {v})"),
                        _ => format!("Default(expr({v}))"),
                    };
                    f.attrs.retain(|a| a.tr != Tr::Default);
                    f.raw.push(format!("#[educe({form})]"));
                    mk(10, format!("`{form}` on field {vi}.{fi} under a type-level Default expression"), format!("field/{}/Default-under-type-expression", pos_class(fi, nf)))
                },
                // `name` on a positionally shown field
                0 if s.has(Tr::Debug) && kind != Kind::Union => {
                    let pos: Vec<usize> = (0..nv).filter(|i| !s.variants[*i].fields.is_empty() && !crate::known::debug_variant_view(s, *i).1).collect();
                    if pos.is_empty() {
                        return None;
                    }
                    let vi = *d.choose(&pos);
                    let nf = s.variants[vi].fields.len();
                    let fi = d.pick(nf);
                    let f = &mut s.variants[vi].fields[fi];
                    f.attrs.retain(|a| a.tr != Tr::Debug);
                    let form = ["Debug(name = x)", "Debug(rename(x))", "Debug = x", "Debug(name = \"x\")"][d.pick(4)];
                    f.raw.push(format!("#[educe({form})]"));
                    mk(10, format!("`{form}` on positionally shown field {vi}.{fi}"), format!("field/{}/Debug", pos_class(fi, nf)))
                },
                // method / ignore / name on a union field
                1 if kind == Kind::Union => {
                    let cands: Vec<Tr> = traits.iter().copied().filter(|t| matches!(t, Tr::Debug | Tr::PartialEq | Tr::Hash | Tr::Clone)).collect();
                    if cands.is_empty() {
                        return None;
                    }
                    let t = *d.choose(&cands);
                    let nf = s.variants[0].fields.len();
                    let fi = d.pick(nf);
                    let form = match t {
                        Tr::Debug => ["Debug(ignore)", "Debug(name = x)", "Debug(method(m_fmt_tag))", "Debug = false"][d.pick(4)].to_string(),
                        Tr::Clone => "Clone(method(m_clone_std))".to_string(),
                        t => [format!("{}(ignore)", t.name()), format!("{}(method(m_eq_le))", t.name()), format!("{} = false", t.name())][d.pick(3)].clone(),
                    };
                    s.variants[0].fields[fi].raw.push(format!("#[educe({form})]"));
                    mk(10, format!("`{form}` on union field {fi}"), format!("field/{}/{}", pos_class(fi, nf), t.name()))
                },
                // bound / new / expression on a variant
                2 if kind == Kind::Enum && nv > 0 => {
                    let cands: Vec<Tr> = traits.iter().copied().filter(|t| !matches!(t, Tr::Into | Tr::Deref | Tr::DerefMut)).collect();
                    if cands.is_empty() {
                        return None;
                    }
                    let t = *d.choose(&cands);
                    let vi = d.pick(nv);
                    let form = match t {
                        Tr::Default => ["Default(new)", "Default(expression = 1)", "Default(bound(*))"][d.pick(3)].to_string(),
                        t => format!("{}(bound(*))", t.name()),
                    };
                    s.variants[vi].attrs.retain(|a| a.tr != t);
                    s.variants[vi].raw.push(format!("#[educe({form})]"));
                    mk(10, format!("`{form}` on variant {vi}"), format!("variant/{}/{}", pos_class(vi, nv), t.name()))
                },
                // field-level parameter of another trait's vocabulary
                3 if !with_fields.is_empty() && kind != Kind::Union => {
                    let table: Vec<(Tr, &str)> = vec![
                        (Tr::PartialEq, "PartialEq(rank = 1)"),
                        (Tr::Hash, "Hash(rank = 1)"),
                        (Tr::Hash, "Hash(name = x)"),
                        (Tr::Debug, "Debug(rank = 1)"),
                        (Tr::Debug, "Debug(named_field = true)"),
                        (Tr::Clone, "Clone(ignore)"),
                        (Tr::Copy, "Copy(ignore)"),
                        (Tr::Ord, "Ord(name = x)"),
                        (Tr::PartialOrd, "PartialOrd(bound(*))"),
                        (Tr::Deref, "Deref(ignore)"),
                        (Tr::DerefMut, "DerefMut = false"),
                        (Tr::Into, "Into(u8, ignore)"),
                        (Tr::Default, "Default(new)"),
                    ];
                    let cands: Vec<&(Tr, &str)> = table.iter().filter(|(t, _)| traits.contains(t) && !(*t == Tr::PartialOrd && s.has(Tr::Ord))).collect();
                    if cands.is_empty() {
                        return None;
                    }
                    let (t, form) = **d.choose(&cands);
                    // `Into(u8, ignore)` needs u8 to be a requested target, otherwise it is refused for another reason - fine either way
                    // a bare `Default` on a struct field / `Copy` handled by Clone: keep to forms refused wherever they are read
                    if t == Tr::Copy && s.has(Tr::Clone) {
                        return None;
                    }
                    let vi = *d.choose(&with_fields);
                    let nf = s.variants[vi].fields.len();
                    let fi = d.pick(nf);
                    let f = &mut s.variants[vi].fields[fi];
                    f.attrs.retain(|a| a.tr != t && !(t == Tr::PartialEq && a.tr == Tr::Eq) && !(t == Tr::Ord && a.tr == Tr::PartialOrd));
                    f.raw.push(format!("#[educe({form})]"));
                    mk(10, format!("`{form}` on field {vi}.{fi}"), format!("field/{}/{}", pos_class(fi, nf), t.name()))
                },
                // type-level parameter that the trait does not take
                4 => {
                    let table: Vec<(Tr, &str)> = vec![
                        (Tr::Clone, "Clone(name = X)"),
                        (Tr::Hash, "Hash(ignore)"),
                        (Tr::PartialEq, "PartialEq(new)"),
                        (Tr::Deref, "Deref(bound(*))"),
                        (Tr::DerefMut, "DerefMut = false"),
                        (Tr::Default, "Default = 1"),
                        (Tr::Ord, "Ord(rank = 1)"),
                        (Tr::Hash, "Hash = false"),
                        (Tr::Clone, "Clone = false"),
                    ];
                    let cands: Vec<&(Tr, &str)> = table.iter().filter(|(t, _)| traits.contains(t)).collect();
                    if cands.is_empty() || kind == Kind::Union {
                        return None;
                    }
                    let (t, form) = **d.choose(&cands);
                    s.traits.retain(|a| a.tr != t);
                    s.raw.push(format!("#[educe({form})]"));
                    mk(10, format!("`{form}` at type level"), format!("type/-/{}", t.name()))
                },
                // named_field / bound on an enum's or union's Debug where it is not offered
                _ => {
                    if !s.has(Tr::Debug) || kind == Kind::Struct {
                        return None;
                    }
                    let form = if kind == Kind::Union { ["Debug(unsafe, named_field = true)", "Debug(unsafe, bound(*))"][d.pick(2)] } else { "Debug(named_field = true)" };
                    s.traits.retain(|a| a.tr != Tr::Debug);
                    s.raw.push(format!("#[educe({form})]"));
                    mk(10, format!("`{form}` at type level"), "type/-/Debug".into())
                },
            }
        },
        // ---------------------------------------------------------------- O11 union without (leading) unsafe
        11 => {
            if kind != Kind::Union {
                return None;
            }
            let idx: Vec<usize> = (0..s.traits.len()).filter(|i| matches!(s.traits[*i].tr, Tr::Debug | Tr::PartialEq | Tr::Hash)).collect();
            if idx.is_empty() {
                return None;
            }
            let ai = *d.choose(&idx);
            let a = &mut s.traits[ai];
            let t = a.tr;
            let others: Vec<(TParam, u8)> = a.params.iter().filter(|(p, _)| !matches!(p, TParam::Unsafe)).cloned().collect();
            if !others.is_empty() && d.chance(50) {
                // unsafe present but not first
                let mut ps = others;
                ps.push((TParam::Unsafe, 0));
                a.params = ps;
                a.sp &= !1;
                mk(11, format!("union {}: `unsafe` not first", t.name()), format!("type/notfirst/{}", t.name()))
            } else {
                a.params.retain(|(p, _)| !matches!(p, TParam::Unsafe));
                if a.params.is_empty() && d.chance(30) {
                    // `Trait()` with empty parentheses
                    let name = t.name();
                    s.traits.remove(ai);
                    s.raw.push(format!("#[educe({name}())]"));
                }
                mk(11, format!("union {} without `unsafe`", t.name()), format!("type/missing/{}", t.name()))
            }
        },
        // ---------------------------------------------------------------- O12 union with an unsupported trait
        12 => {
            if kind != Kind::Union {
                return None;
            }
            let t = *d.choose(&[Tr::PartialOrd, Tr::Ord, Tr::Deref, Tr::DerefMut, Tr::Into]);
            let form = match t {
                Tr::Into => "Into(u8)".to_string(),
                t => t.name().to_string(),
            };
            if t == Tr::DerefMut && !s.has(Tr::Deref) {
                s.raw.push("#[educe(Deref)]".into());
            }
            s.raw.push(format!("#[educe({form})]"));
            mk(12, format!("union with {form}"), format!("type/-/{}", t.name()))
        },
        // ---------------------------------------------------------------- O13 unit variant under Deref/DerefMut/Into
        13 => {
            if kind != Kind::Enum || nv == 0 || !(s.has(Tr::Deref) || s.has(Tr::Into)) {
                return None;
            }
            // the request is valid; turning one variant into a unit variant is the only fault
            let vi = d.pick(nv);
            let is_default = s.variants[vi].attrs.iter().any(|a| a.tr == Tr::Default);
            let _ = is_default;
            let v = &mut s.variants[vi];
            v.shape = Shape::Unit;
            v.fields.clear();
            v.disc = None;
            for a in v.attrs.iter_mut() {
                a.params.retain(|(p, _)| !matches!(p, TParam::NamedField(_) | TParam::Name(NameV::False)));
            }
            v.attrs.retain(|a| !(a.tr == Tr::Debug && a.params.is_empty()));
            let t: Vec<&str> = [Tr::Deref, Tr::DerefMut, Tr::Into].iter().filter(|t| s.has(**t)).map(|t| t.name()).collect();
            mk(13, format!("variant {vi} made a unit variant under {}", t.join("+")), format!("variant/{}/{}", pos_class(vi, nv), t.join("+")))
        },
        // ---------------------------------------------------------------- O14 nothing to print
        14 => {
            if !s.has(Tr::Debug) {
                return None;
            }
            match kind {
                Kind::Struct => {
                    // unit struct (or all fields ignored) with the name disabled
                    let v = &mut s.variants[0];
                    if d.chance(50) || v.fields.is_empty() {
                        v.shape = if v.fields.is_empty() { v.shape } else { Shape::Unit };
                        if !v.fields.is_empty() {
                            return None;
                        }
                    } else {
                        for f in v.fields.iter_mut() {
                            f.attrs.retain(|a| a.tr != Tr::Debug);
                            f.attrs.push(FAttr { tr: Tr::Debug, into_ty: None, params: vec![(FParam::Ignore(true), d.byte())], sp: d.byte() });
                        }
                    }
                    let a = s.traits.iter_mut().find(|a| a.tr == Tr::Debug).unwrap();
                    a.params.retain(|(p, _)| !matches!(p, TParam::Name(_)));
                    a.params.push((TParam::Name(NameV::False), d.byte()));
                    a.sp &= !1;
                    mk(14, "struct with nothing to print and no name".into(), "type/-/Debug".into())
                },
                Kind::Enum => {
                    let enum_named = matches!(s.attr(Tr::Debug).and_then(|a| a.name()), Some(NameV::True) | Some(NameV::Custom(_)));
                    if nv == 0 {
                        let a = s.traits.iter_mut().find(|a| a.tr == Tr::Debug).unwrap();
                        a.params.retain(|(p, _)| !matches!(p, TParam::Name(_)));
                        if d.chance(50) {
                            a.params.push((TParam::Name(NameV::False), d.byte()));
                            a.sp &= !1;
                        }
                        return mk(14, "empty enum without a name".into(), "type/-/Debug".into());
                    }
                    if enum_named {
                        let a = s.traits.iter_mut().find(|a| a.tr == Tr::Debug).unwrap();
                        a.params.retain(|(p, _)| !matches!(p, TParam::Name(_)));
                    }
                    let units: Vec<usize> = (0..nv).filter(|i| s.variants[*i].shape == Shape::Unit || s.variants[*i].fields.is_empty()).collect();
                    // a variant whose fields are all ignored has nothing to print either
                    let with_fields: Vec<usize> = (0..nv).filter(|i| !s.variants[*i].fields.is_empty()).collect();
                    if !with_fields.is_empty() && (units.is_empty() || d.chance(40)) {
                        let vi = *d.choose(&with_fields);
                        let v = &mut s.variants[vi];
                        for f in v.fields.iter_mut() {
                            f.attrs.retain(|a| a.tr != Tr::Debug);
                            f.attrs.push(FAttr { tr: Tr::Debug, into_ty: None, params: vec![(FParam::Ignore(true), d.byte())], sp: d.byte() });
                        }
                        v.attrs.retain(|a| a.tr != Tr::Debug);
                        v.attrs.push(TAttr { tr: Tr::Debug, into_ty: None, params: vec![(TParam::Name(NameV::False), d.byte())], sp: 0 });
                        return mk(14, format!("nameless variant {vi} whose fields are all ignored, without an enum name"), format!("variant-all-ignored/{}/Debug", pos_class(vi, nv)));
                    }
                    if units.is_empty() {
                        return None;
                    }
                    let vi = *d.choose(&units);
                    let v = &mut s.variants[vi];
                    v.attrs.retain(|a| a.tr != Tr::Debug);
                    v.attrs.push(TAttr { tr: Tr::Debug, into_ty: None, params: vec![(TParam::Name(NameV::False), d.byte())], sp: 0 });
                    mk(14, format!("nameless unit variant {vi} without an enum name"), format!("variant/{}/Debug", pos_class(vi, nv)))
                },
                Kind::Union => None,
            }
        },
        _ => None,
    }
}
