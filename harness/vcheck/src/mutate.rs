//! Token-level mutation of derive inputs (C17). Works on proc_macro2 token trees so every mutant
//! is again a token stream; whether it still parses as a derive input is checked by the caller.
#![allow(dead_code)]

use proc_macro2::{Delimiter, Group, Ident, Literal, Punct, Spacing, Span, TokenStream, TokenTree};

use crate::dna::Dna;

fn toks(s: &str) -> Vec<TokenTree> {
    s.parse::<TokenStream>().map(|t| t.into_iter().collect()).unwrap_or_default()
}

fn pool_token(d: &mut Dna) -> Vec<TokenTree> {
    const POOL: [&str; 70] = [
        // near misses of trait and parameter names with a multi-byte character at every small byte offset
        "Débug", "Клон", "Paß", "Dé", "Debüg", "Hаsh", "Ｅq", "Ordé", "Intö", "ígnore", "nämé", "Éq",
        "=", ",", "()", "unsafe", "*", "name", "rename", "bound", "ignore", "method", "rank", "expression", "expr", "new", "named_field",
        "Debug", "Clone", "Copy", "PartialEq", "Eq", "PartialOrd", "Ord", "Hash", "Default", "Deref", "DerefMut", "Into", "true", "false",
        "\"\"", "\"x y\"", "\"T: Clone\"", "\"é\"", "'c'", "b'x'", "b\"ab\"", "1.5", "1e400", "0x10", "340282366920938463463374607431768211456",
        "99999999999999999999999999999999999999999999", "-1", "- 9223372036854775809", "'a", "#", "!", "?", "::", "a::b::c", "::core::fmt::Debug",
        "é", "r#type", "Self", "_", "[u8; 2]", "&'static str", "fn(u8) -> u8", "T: ?Sized",
    ];
    toks(POOL[d.pick(POOL.len())])
}

fn wrap(tts: Vec<TokenTree>, depth: usize, delim: Delimiter) -> TokenTree {
    let mut cur: TokenStream = tts.into_iter().collect();
    for _ in 0..depth {
        cur = TokenStream::from(TokenTree::Group(Group::new(delim, cur)));
    }
    match cur.into_iter().next() {
        Some(t) => t,
        None => TokenTree::Group(Group::new(delim, TokenStream::new())),
    }
}

/// paths (as index lists) to every `(..)` group that is the argument list of an `educe` attribute
fn find_educe_groups(ts: &[TokenTree], prefix: &mut Vec<usize>, out: &mut Vec<Vec<usize>>) {
    for (i, tt) in ts.iter().enumerate() {
        if let TokenTree::Group(g) = tt {
            let inner: Vec<TokenTree> = g.stream().into_iter().collect();
            prefix.push(i);
            if g.delimiter() == Delimiter::Bracket {
                // `[educe ( .. )]`
                if let (Some(TokenTree::Ident(id)), Some(TokenTree::Group(pg))) = (inner.first(), inner.get(1)) {
                    if id == "educe" && pg.delimiter() == Delimiter::Parenthesis {
                        let mut p = prefix.clone();
                        p.push(1);
                        out.push(p);
                    }
                }
            }
            find_educe_groups(&inner, prefix, out);
            prefix.pop();
        }
    }
}

fn rebuild(ts: Vec<TokenTree>, path: &[usize], f: &mut dyn FnMut(Vec<TokenTree>, Delimiter) -> (Vec<TokenTree>, Delimiter)) -> Vec<TokenTree> {
    let mut out = ts;
    if path.is_empty() {
        return out;
    }
    let i = path[0];
    if i >= out.len() {
        return out;
    }
    if let TokenTree::Group(g) = &out[i] {
        let inner: Vec<TokenTree> = g.stream().into_iter().collect();
        let delim = g.delimiter();
        let (new_inner, new_delim) = if path.len() == 1 { f(inner, delim) } else { (rebuild(inner, &path[1..], f), delim) };
        out[i] = TokenTree::Group(Group::new(new_delim, new_inner.into_iter().collect()));
    }
    out
}

/// descend randomly into nested groups of an attribute argument list, returning the path
fn descend(ts: &[TokenTree], d: &mut Dna, path: &mut Vec<usize>) {
    let groups: Vec<usize> = ts.iter().enumerate().filter(|(_, t)| matches!(t, TokenTree::Group(_))).map(|(i, _)| i).collect();
    if groups.is_empty() || !d.chance(55) {
        return;
    }
    let gi = *d.choose(&groups);
    path.push(gi);
    if let TokenTree::Group(g) = &ts[gi] {
        let inner: Vec<TokenTree> = g.stream().into_iter().collect();
        descend(&inner, d, path);
    }
}

/// values that stress the converters behind `p = v` / `p(v)`: wrong kinds, odd strings, out-of-range numbers
fn value_token(d: &mut Dna) -> Vec<TokenTree> {
    const VALS: [&str; 40] = [
        "\"x y\"", "\"a-b\"", "\"1st\"", "\"T: Debug\"", "\"r#type\"", "\"type\"", "\"\"", "\" \"", "\"é\"", "\"a::b\"", "\"a::\"", "\"::\"", "\"fn\"", "\"_\"", "\"'a\"",
        "\"-\"", "\"- 3\"", "\"+3\"", "\"3 \"", "\"0x10\"", "\"99999999999999999999\"", "\"-9223372036854775809\"", "9223372036854775808", "-9223372036854775809",
        "340282366920938463463374607431768211456", "1.5", "1e10", "'c'", "b'x'", "b\"ab\"", "true", "false", "r#type", "Self", "self", "crate", "_", "a::b", "::a", "\"T:\"",
    ];
    toks(VALS[d.pick(VALS.len())])
}

fn mutate_list(mut v: Vec<TokenTree>, delim: Delimiter, d: &mut Dna, what: &mut Vec<String>) -> (Vec<TokenTree>, Delimiter) {
    let n = v.len();
    // targeted: keep the shape `p = v` / `p(v)` and only replace the value, so that the mutant reaches the converters
    if d.chance(35) {
        let eqs: Vec<usize> = (0..n).filter(|i| matches!(&v[*i], TokenTree::Punct(p) if p.as_char() == '=') && *i + 1 < n).collect();
        let grps: Vec<usize> = (0..n).filter(|i| *i > 0 && matches!(&v[*i], TokenTree::Group(g) if g.delimiter() == Delimiter::Parenthesis) && matches!(&v[*i - 1], TokenTree::Ident(_))).collect();
        if !eqs.is_empty() && (grps.is_empty() || d.chance(50)) {
            let i = *d.choose(&eqs);
            // the value runs up to the next top-level comma
            let end = (i + 1..n).find(|k| matches!(&v[*k], TokenTree::Punct(p) if p.as_char() == ',')).unwrap_or(n);
            let t = value_token(d);
            what.push(format!("value after `=` replaced by `{}`", t.iter().map(|x| x.to_string()).collect::<Vec<_>>().join(" ")));
            v.splice(i + 1..end, t);
            return (v, delim);
        }
        if !grps.is_empty() {
            let i = *d.choose(&grps);
            let t = value_token(d);
            what.push(format!("value inside `(..)` replaced by `{}`", t.iter().map(|x| x.to_string()).collect::<Vec<_>>().join(" ")));
            v[i] = TokenTree::Group(Group::new(Delimiter::Parenthesis, t.into_iter().collect()));
            return (v, delim);
        }
    }
    let op = d.pick(12);
    match op {
        0 if n > 0 => {
            let i = d.pick(n);
            what.push(format!("delete `{}`", v[i]));
            v.remove(i);
        },
        1 if n > 0 => {
            let i = d.pick(n);
            what.push(format!("duplicate `{}`", v[i]));
            let t = v[i].clone();
            v.insert(i, t);
        },
        2 if n > 1 => {
            let i = d.pick(n - 1);
            what.push(format!("swap `{}` and `{}`", v[i], v[i + 1]));
            v.swap(i, i + 1);
        },
        3 if n > 0 => {
            let i = d.pick(n);
            let t = pool_token(d);
            what.push(format!("replace `{}` by `{}`", v[i], t.iter().map(|x| x.to_string()).collect::<Vec<_>>().join(" ")));
            v.splice(i..i + 1, t);
        },
        4 => {
            let i = d.pick(n + 1);
            let t = pool_token(d);
            what.push(format!("insert `{}`", t.iter().map(|x| x.to_string()).collect::<Vec<_>>().join(" ")));
            v.splice(i..i, t);
        },
        5 => {
            what.push("empty the list".into());
            v.clear();
        },
        6 if n > 0 => {
            let i = d.pick(n);
            let depth = [1usize, 2, 5, 16, 64][d.pick(5)];
            let dl = [Delimiter::Parenthesis, Delimiter::Bracket, Delimiter::Brace, Delimiter::None][d.pick(4)];
            what.push(format!("wrap `{}` in {depth} x {:?}", v[i], dl));
            let t = v[i].clone();
            v[i] = wrap(vec![t], depth, dl);
        },
        7 if n > 0 => {
            // turn `p = v` into `p(v)` or back, crudely
            if let Some(i) = v.iter().position(|t| matches!(t, TokenTree::Punct(p) if p.as_char() == '=')) {
                what.push("turn `= v` into `(v)`".into());
                let rest: Vec<TokenTree> = v.drain(i..).skip(1).collect();
                v.push(TokenTree::Group(Group::new(Delimiter::Parenthesis, rest.into_iter().collect())));
            } else if let Some(i) = v.iter().position(|t| matches!(t, TokenTree::Group(g) if g.delimiter() == Delimiter::Parenthesis)) {
                what.push("turn `(v)` into `= v`".into());
                if let TokenTree::Group(g) = v[i].clone() {
                    let inner: Vec<TokenTree> = g.stream().into_iter().collect();
                    v.splice(i..i + 1, std::iter::once(TokenTree::Punct(Punct::new('=', Spacing::Alone))).chain(inner));
                }
            }
        },
        8 if n > 0 => {
            let i = d.pick(n);
            what.push("make a path multi-segment".into());
            let t = v[i].clone();
            let mut seg = toks("a::b::");
            seg.push(t);
            v.splice(i..i + 1, seg);
        },
        9 => {
            what.push("prepend `unsafe,`".into());
            let mut t = toks("unsafe,");
            t.extend(v);
            v = t;
        },
        10 => {
            what.push("change the delimiter".into());
            let dl = [Delimiter::Bracket, Delimiter::Brace, Delimiter::None][d.pick(3)];
            return (v, dl);
        },
        _ => {
            let i = d.pick(n + 1);
            what.push("insert a literal of another kind".into());
            let lits = [
                TokenTree::Literal(Literal::string("Ty")),
                TokenTree::Literal(Literal::i64_unsuffixed(-7)),
                TokenTree::Literal(Literal::u128_unsuffixed(u128::MAX)),
                TokenTree::Literal(Literal::f64_unsuffixed(2.5)),
                TokenTree::Literal(Literal::character('\u{1F600}')),
                TokenTree::Literal(Literal::byte_string(b"\xff\x00")),
                TokenTree::Ident(Ident::new("true", Span::call_site())),
            ];
            v.insert(i, lits[d.pick(lits.len())].clone());
        },
    }
    (v, delim)
}

/// item-level mutations outside the educe attributes (still a derive input afterwards, usually)
fn mutate_item(mut v: Vec<TokenTree>, d: &mut Dna, what: &mut Vec<String>) -> Vec<TokenTree> {
    match d.pick(5) {
        0 => {
            // replace an enum discriminant expression / add one
            let exprs = ["= 1 + 1", "= -(-1)", "= FOO", "= 340282366920938463463374607431768211455", "= -170141183460469231731687303715884105728", "= !0", "= 1u8 as isize", "= 0x7f", "= { 3 }"];
            for t in v.iter_mut() {
                if let TokenTree::Group(g) = t {
                    if g.delimiter() == Delimiter::Brace {
                        let mut inner: Vec<TokenTree> = g.stream().into_iter().collect();
                        // before the first top-level comma
                        if let Some(i) = inner.iter().position(|x| matches!(x, TokenTree::Punct(p) if p.as_char() == ',')) {
                            let e = exprs[d.pick(exprs.len())];
                            what.push(format!("discriminant `{e}`"));
                            inner.splice(i..i, toks(e));
                            *t = TokenTree::Group(Group::new(Delimiter::Brace, inner.into_iter().collect()));
                        }
                        break;
                    }
                }
            }
        },
        1 => {
            let reprs = ["#[repr(align(2))]", "#[repr(C, align(8))]", "#[repr(packed)]", "#[repr = \"u8\"]", "#[repr]", "#[repr()]", "#[repr(u8, u16)]", "#[repr(\"u8\")]", "#[repr(transparent)]", "#[repr(i128)]"];
            let r = reprs[d.pick(reprs.len())];
            what.push(format!("add `{r}`"));
            let mut t = toks(r);
            t.extend(v);
            v = t;
        },
        2 => {
            let attrs = ["#[educe]", "#[educe = \"Debug\"]", "#[educe()]", "#[educe(,)]", "#[educe[Debug]]", "#[educe{Debug}]", "#[educe(Debug,,)]", "#[doc = \"x\"]", "#[educe::educe(Debug)]", "#[educe(Debug);]"];
            let r = attrs[d.pick(attrs.len())];
            what.push(format!("add `{r}`"));
            let mut t = toks(r);
            t.extend(v);
            v = t;
        },
        3 => {
            // put a stray educe attribute on a field / variant: inside the first body group
            let attrs = ["#[educe]", "#[educe = 1]", "#[educe()]", "#[educe(Debug(()))]", "#[educe(Into)]", "#[educe(Into())]", "#[educe(Into(,))]", "#[educe(Default = )]"];
            for t in v.iter_mut() {
                if let TokenTree::Group(g) = t {
                    if matches!(g.delimiter(), Delimiter::Brace | Delimiter::Parenthesis) {
                        let r = attrs[d.pick(attrs.len())];
                        what.push(format!("add `{r}` inside the body"));
                        let mut inner = toks(r);
                        inner.extend(g.stream());
                        *t = TokenTree::Group(Group::new(g.delimiter(), inner.into_iter().collect()));
                        break;
                    }
                }
            }
        },
        _ => {
            what.push("pub(in crate) visibility".into());
            let mut t = toks("pub(crate)");
            // only valid in front of the item keyword if there is no visibility yet; harmless otherwise (unparsable mutants are skipped)
            if !matches!(v.iter().find(|x| matches!(x, TokenTree::Ident(_))), Some(TokenTree::Ident(i)) if i == "pub") {
                let at = v.iter().position(|x| matches!(x, TokenTree::Ident(_))).unwrap_or(0);
                v.splice(at..at, t.drain(..));
            }
        },
    }
    v
}

/// apply 1..=4 mutations; returns the mutant and a description
pub fn mutate(ts: TokenStream, d: &mut Dna) -> (TokenStream, Vec<String>) {
    let mut v: Vec<TokenTree> = ts.into_iter().collect();
    let mut what = Vec::new();
    let n = 1 + d.weighted(&[40, 30, 20, 10]);
    for _ in 0..n {
        let mut groups = Vec::new();
        find_educe_groups(&v, &mut Vec::new(), &mut groups);
        if groups.is_empty() || d.chance(12) {
            v = mutate_item(v, d, &mut what);
            continue;
        }
        let mut path = d.choose(&groups).clone();
        // optionally descend into nested groups of that attribute
        {
            // find the group at `path`
            fn at<'a>(v: &'a [TokenTree], path: &[usize]) -> Vec<TokenTree> {
                let mut cur: Vec<TokenTree> = v.to_vec();
                for &i in path {
                    match cur.get(i) {
                        Some(TokenTree::Group(g)) => cur = g.stream().into_iter().collect(),
                        _ => return vec![],
                    }
                }
                cur
            }
            let inner = at(&v, &path);
            descend(&inner, d, &mut path);
        }
        let mut f = |inner: Vec<TokenTree>, delim: Delimiter| mutate_list(inner, delim, d, &mut what);
        v = rebuild(v, &path, &mut f);
    }
    (v.into_iter().collect(), what)
}
