use std::io::{BufRead, Write};

fn fnv64(s: &str) -> u64 {
    let mut h: u64 = 0xcbf29ce484222325;
    for b in s.bytes() {
        h = (h ^ b as u64).wrapping_mul(0x100000001b3);
    }
    h
}

fn unescape(s: &str) -> String {
    let mut out = String::new();
    let mut it = s.chars();
    while let Some(c) = it.next() {
        if c == '\\' {
            match it.next() {
                Some('n') => out.push('\n'),
                Some('\\') => out.push('\\'),
                Some(x) => out.push(x),
                None => {},
            }
        } else {
            out.push(c);
        }
    }
    out
}

fn main() {
    std::panic::set_hook(Box::new(|_| {}));
    let stdin = std::io::stdin();
    let stdout = std::io::stdout();
    let mut out = stdout.lock();
    for line in stdin.lock().lines() {
        let line = line.unwrap();
        let src = unescape(&line);
        let res = match src.parse::<proc_macro2::TokenStream>() {
            Err(e) => format!("unparsable {}", e),
            Ok(ts) => match std::panic::catch_unwind(|| educe_inproc::verif_expand(ts)) {
                Ok(Ok(t)) => format!("ok {:016x}", fnv64(&t.to_string())),
                Ok(Err(e)) => format!("err {}", e.to_string().replace('\n', "\\n")),
                Err(_) => "panic".to_string(),
            },
        };
        writeln!(out, "{res}").unwrap();
    }
}
