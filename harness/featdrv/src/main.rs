use std::io::{BufRead, Write};

fn fnv64(s: &str) -> u64 {
    let mut h: u64 = 0xcbf29ce484222325;
    for b in s.bytes() {
        h = (h ^ b as u64).wrapping_mul(0x100000001b3);
    }
    h
}

/// the token stream with every punctuation character as a token of its own: `&&` and `& &` are the same tokens for the
/// compiler, but a parser that gives `&&x` a shape re-emits it as two separate `&`
fn flat(ts: proc_macro2::TokenStream, out: &mut String) {
    for tt in ts {
        match tt {
            proc_macro2::TokenTree::Group(g) => {
                let (o, c) = match g.delimiter() {
                    proc_macro2::Delimiter::Parenthesis => ("(", ")"),
                    proc_macro2::Delimiter::Brace => ("{", "}"),
                    proc_macro2::Delimiter::Bracket => ("[", "]"),
                    proc_macro2::Delimiter::None => ("", ""),
                };
                out.push_str(o);
                out.push(' ');
                flat(g.stream(), out);
                out.push_str(c);
                out.push(' ');
            },
            proc_macro2::TokenTree::Punct(p) => {
                out.push(p.as_char());
                out.push(' ');
            },
            other => {
                out.push_str(&other.to_string());
                out.push(' ');
            },
        }
    }
}

fn unescape(s: &str) -> String {
    let mut out = String::new();
    let mut it = s.chars();
    while let Some(c) = it.next() {
        if c == '\\' {
            match it.next() {
                Some('n') => out.push('\n'),
                Some('\\') => out.push('\\'),
                Some(x) => out.push(x),
                None => {},
            }
        } else {
            out.push(c);
        }
    }
    out
}

fn main() {
    std::panic::set_hook(Box::new(|_| {}));
    let stdin = std::io::stdin();
    let stdout = std::io::stdout();
    let mut out = stdout.lock();
    for line in stdin.lock().lines() {
        let line = line.unwrap();
        let src = unescape(&line);
        let res = match src.parse::<proc_macro2::TokenStream>() {
            Err(e) => format!("unparsable {}", e),
            Ok(ts) => match std::panic::catch_unwind(|| educe_inproc::verif_expand(ts)) {
                // VERIF_FEATDRV_TEXT=1: the expansion itself, for diagnosing a reported difference by hand
                Ok(Ok(t)) if std::env::var_os("VERIF_FEATDRV_TEXT").is_some() => format!("ok {}", t.to_string().replace('\n', " ")),
                // VERIF_FEATDRV_FLAT=1: hash of the spacing-insensitive form (comparisons between differently configured parsers)
                Ok(Ok(t)) if std::env::var_os("VERIF_FEATDRV_FLAT").is_some() => {
                    let mut s = String::new();
                    flat(t, &mut s);
                    format!("ok {:016x}", fnv64(&s))
                },
                Ok(Ok(t)) => format!("ok {:016x}", fnv64(&t.to_string())),
                Ok(Err(e)) => format!("err {}", e.to_string().replace('\n', "\\n")),
                Err(_) => "panic".to_string(),
            },
        };
        writeln!(out, "{res}").unwrap();
    }
}
